#!/usr/bin/env python3
"""Regenerate MANIFEST.json from the table below (run from /verif)."""
import json
import os

HERE = os.path.dirname(os.path.dirname(os.path.abspath(__file__)))

# property id -> (level text, level note, technique)
CLAIMED = {
    "C01": (
        "Generated-input search: exhaustive over all small files (1..3 or 1..4 records, field widths from a small set) x every chunk size "
        "x plain/gzip x final newline x LF/CRLF x lazy/eager for ten formats, plus Hypothesis-sampled larger files with chunk sizes aimed at "
        "divisors and record boundaries; oracle is equality of concatenated chunk rows with read() rows and with the generated records. Sampled formats also include BED12, GFF and wig with comment lines between the records (some longer than any record, some holding the column separator), GFA, pairs, chrom.sizes and VCF with typed INFO keys; max_chunk_size and read_chunk-then-read histories are drawn too.",
        "Holds on the explored region only. Trusts Python's gzip module and the per-format serializers in pbt/formats.py.",
        "exhaustive small-domain enumeration + Hypothesis sampling, differential oracle (chunked vs whole read)"),
    "C02": (
        "Generated-input search over 21 format variants: Hypothesis builds files from independent grammars (non-canonical but valid spellings, "
        "unequal widths, CRLF, comments, typed INFO declarations, genotype columns) and every parsed column is compared with a plain-Python "
        "parse of the same text, for eager and lazy reading and through bnp.open on real files; in a share of the cases another file (the same "
        "bytes through another VCF buffer type, another file of the format, a VCF declaring the same INFO keys with another Number) is read first in the same process.",
        "Holds on the explored region only. The reference parse (int(), float(), str.split) and the grammars in pbt/formats.py and pbt/strategies.py are trusted; floats are compared within 8 ulp.",
        "Hypothesis grammar-based generation, reference-model oracle (independent Python parse)"),
    "C03": (
        "Generated tables and writing plans: Hypothesis builds tables of 13 entry types from Python values (int64 extremes and powers of ten, "
        "finite floats, FASTA lengths around multiples of 80) and a plan that splits the rows into successive writes, a stream, or append "
        "sessions on a plain or gzip file. The written body is compared with an independent canonical serializer, the file is read back "
        "eagerly and lazily and compared with the input rows, and the plan's content must equal the single write byte for byte. In a third of the "
        "cases the pieces are slices (optionally thinned by a mask) of the lazily re-read file, written piecewise or as one np.concatenate. Seventeen table types by now (genotype matrices, GFF, GFA included); pieces may also be the chunks handed out by one reader with a column re-assigned on every second chunk, and the re-read FASTQ table (lazy and eager) is written to a FASTA target.",
        "Holds on the explored region only. Trusts the canonical serializer in pbt/props/c03.py and Python's gzip.",
        "Hypothesis generation, round-trip + reference serializer + metamorphic (split writes == single write)"),
    "C04": (
        "Model-based generated histories: Hypothesis draws a source file with non-canonical spellings and a program of selections, "
        "concatenations, field replacements and interleaved write / to-rows observations over a pool of lazily read tables; a byte-level model "
        "(source record byte strings plus per-row replaced fields) predicts the written bytes exactly for unmodified selections and field by "
        "field for concatenated or modified tables. BAM: files from the independent encoder with programs of selections, field reads, writes and "
        "concatenations (random steps plus select - read - write - read chains); written selections must be the original record bytes and every field read at any point must be the generated value. Also: VCF files with FORMAT and sample columns read as plain entries (the columns after INFO must survive a modified write), GFA, attribute assignment on selections, masks and row lists given as Python lists, and GTF files with non-canonical start/stop spellings (open finding: GTF is parsed on reading, so these come back in canonical spelling).",
        "Holds on the explored region only; nine text format variants and BAM. Trusts pbt/formats.py record serializers and pbt/bamenc.py. BamBuffer does not support writing parsed tables (supports_modified_write = False): such a write must raise. Tolerances: float re-formatting within 8 ulp, '.' placeholder may become 0 in a replaced column, an empty SAM tags field may be written as a trailing tab.",
        "Hypothesis-generated operation programs interpreted against a byte-level reference model"),
    "C05": (
        "Differential model-based histories: the same generated file is read lazily and eagerly (whole or chunked) and a Hypothesis-drawn "
        "program of public operations (len, field access in any order, indexing, concatenation, bnp.replace, attribute assignment, tolist, "
        "write) runs on both; after every step values and written bytes must be equal, or both sides must raise. BAM files from the independent "
        "encoder run the same selection / read / write programs in both modes.",
        "Holds on the explored region only; the eager table is the reference, so a defect common to both modes is invisible here (C02/C03 cover those). One open finding ('.' score placeholder) is excluded by a narrow bucket. Integer row access that fails inside npstructures under NumPy 2 is counted as a tolerant class.",
        "Hypothesis-generated operation programs, differential oracle (lazy vs eager)"),
    "C06": (
        "Exhaustive over all 256 byte values x 10 predefined alphabets x 2 input routes, plus Hypothesis strings / lists / base-encoded arrays "
        "with one foreign character inserted anywhere, StringEncoding label lists, and all 90 ordered alphabet pairs for re-targeting and "
        "change_encoding (contiguous arrays and row-reordered views), and histories of 2..6 calls in one process (re-targetings between alphabets "
        "that share a prefix; encode, edit the returned array, encode again); oracle is a Python model of each alphabet and text equality. Also: text already held in an encoded array presented to an encoding (alphabet or numeric offset encoding) once to three times, whole or one row (text unchanged, same codes every time), lists of rows in several encodings, and k-mer arrays over one or two alphabets read back as text.",
        "Holds on the explored region; the byte-level part is complete. Hash collisions of StringEncoding are out of reach of random search.",
        "exhaustive byte enumeration + Hypothesis generation, reference-model oracle and text-preservation (metamorphic) oracle"),
    "C07": (
        "Model-based generated histories: Hypothesis draws an initial list of strings and a program of NumPy-style operations (row and column "
        "indexing of every kind, reversal, comparisons, item assignment on copies, concatenate, copy, ravel, split / join / str_equal) over a pool "
        "of earlier results, including non-contiguous views; after every step the real object must decode to the list-of-strings model and keep "
        "the operand's encoding. Also: single elements picked by row and column lists or by the ragged mask itself, NumPy array functions on flat arrays, two-dimensional encoded arrays, results kept unread between steps, and alphabets made for the case after other alphabets over the same letters were made, used and dropped.",
        "Holds on the explored region only (4 encodings). The list model has no view aliasing, so assignment is only made on fresh copies and the original is re-checked.",
        "Hypothesis-generated operation programs interpreted against a list-of-strings reference model"),
    "C08": (
        "Exhaustive enumeration of every interval multiset (up to 3 intervals) on contigs of size 1..6 (1..8 thorough) with every merge distance, "
        "and every pair of multisets (2+2) on sizes up to 5 (6 thorough), plus Hypothesis sets on contigs up to 300; every function's result is "
        "compared with a dense per-base Python model (jaccard / forbes also on a two-contig genome where a set may be absent from a contig) and every input is compared with its snapshot after each call. Also: the same interval up to 600 times over (depth beyond 8 and 16 bit ranges), sorting of the table with its contig column encoded against a name list, and clipping of intervals lying wholly outside the contig.",
        "Holds on the explored region; the small-contig cores are complete. count_overlap / intersect are only checked for values on internally non-overlapping sets (their sweep has no meaning otherwise).",
        "exhaustive small-domain enumeration + Hypothesis sampling, reference-model oracle (dense per-base arrays)"),
    "C09": (
        "Generated genomes, tracks and expression trees: Hypothesis builds 1..4 chromosomes, bedGraph / interval tracks covering all "
        "constructor branches (start at 0 or later, end at size or earlier, gaps, empty chromosomes; int, float, bool) and an expression tree "
        "over + - * < > == & | ~ with scalars on either side, closed by to_dict, get_data, str, sum or histogram; the result is compared with "
        "the same expression evaluated by NumPy on dense arrays. Also: interval sets read from a BED file by the genome with other views of the set taken first, bedGraph through the Geometry object, genomes whose sizes are given unsorted with sort_names, rows on an ignored sequence, and the streamed array type closed by a reduction.",
        "Holds on the explored region only. In-memory (global) genomic arrays; the streamed per-chromosome variant is covered by C11.",
        "Hypothesis generation of data and expression trees, reference-model oracle (NumPy on dense arrays)"),
    "C10": (
        "Generated multi-chromosome genomes (prefix names, underscore names under both filters, underscore name not last) with interval and "
        "location sets emphasising entries at chromosome boundaries; every genome-wide operation (mask, pileup, sorted, merged, clip, "
        "extended_to_size, get_location, get_windows, array and sequence values under stranded intervals through the dict and the indexed-FASTA "
        "back ends, Geometry helpers) is compared per chromosome with the single-contig model applied to that chromosome's entries alone, and "
        "the GlobalOffset conversions are checked exhaustively for every generated genome. Also: map_locations, BinnedGenome.count, GenomicIntervals.from_fields, sort_names=True, and the interval set taken back from a mask (from_track) and sorted.",
        "Holds on the explored region only. In-memory (Full) variants plus the pileup through the streamed per-chromosome path; streaming itself is C11/C12. The per-chromosome model is the one validated in C08.",
        "Hypothesis generation, reference-model oracle (per-chromosome restriction) + exhaustive bijection check per genome"),
    "C11": (
        "Exhaustive over all 2^(n-1) chunkings of n sorted entries (n = 8 quick, 10 thorough) for fourteen computations on ten deterministic "
        "datasets (mean, bincount, histogram with edges / with range, count_kmers, groupby on an identifier and on a text-typed key, chunk_entries, and per-chromosome pipelines evaluated "
        "with bnp.compute: pileup records, mask sum, pileup sum, pileup histogram, window column mean, and joint computes of several reductions), plus Hypothesis datasets of up to 200 "
        "entries with sampled cut sets; each streamed value is compared with an independent Python computation and the in-memory path. Also: per-window sums (row-wise) and rows under in-memory windows that are not sorted within a chromosome, stranded windows ('.' included) and the evaluated form of stranded streamed intervals, chunk_lines, and k-mer counts over more than a million k-mers.",
        "Holds on the explored region; for the listed n every chunking is covered. Streams are built from in-memory tables split at the cut positions (file-level chunking is C01).",
        "exhaustive enumeration of chunkings + Hypothesis sampling, differential/metamorphic oracle (streamed == in-memory == Python model)"),
    "C12": (
        "Exhaustive over every sequence of distinct contig groups drawn from the genome's names, one unknown and one ignored name (326 "
        "sequences for 3 contigs, 1957 for 4) x four chunkings (none, between groups, inside groups, every entry) x seven consumers "
        "(iter_chromosomes, pileup, mask sum, compute, get_track, MultiStream, forbes/jaccard), plus Hypothesis genomes where the ignored "
        "contig sits anywhere in the listing, a name with an underscore may be kept, and the contig column may be text-typed. A decision-table oracle says for each sequence whether evaluation must complete (with each "
        "contig receiving exactly its entries) or must raise; the entries seen after a completed evaluation must equal the non-ignored input. Nine consumers by now (left_join and a joint evaluation of two streamed datasets in one compute call added), and group sequences in which a contig comes back after another one (the first and the last entry of the data then carry the same name).",
        "Holds on the explored region; the group-sequence core is complete for the stated genome sizes. Entries of one contig are contiguous (the property's precondition).",
        "exhaustive enumeration of group orders + Hypothesis sampling, decision-table oracle with conservation invariant"),
    "C13": (
        "Exhaustive over every list of up to 2 rows of length 0..4 (3 rows of length 0..3) on a two-letter sub-alphabet with every window 1..5 "
        "for k-mers (bit-packed and generic paths), minimizers (every k <= w), match_string, motif scores and k-mer counts; Hypothesis for five "
        "alphabets, k up to the largest representable, rows of length w-1, w, w+1 and empty rows, inputs given as non-contiguous row selections, "
        "and histories of 2..4 calls over same-size alphabets. Oracle: per-row plain-Python definitions. Also: k one to three letters beyond what 64 bits hold (refused or right), plain-text input, alphabets of two and three letters, and inputs of 70 000 to 5 000 000 letters against per-row NumPy references.",
        "Holds on the explored region only; the small core is complete.",
        "exhaustive small-domain enumeration + Hypothesis sampling, reference-model oracle (per-row Python definitions)"),
    "C14": (
        "Exhaustive over every DNA string of length <= 4 on {A,C,G,T,N,a,c,g,t,n} in ASCII and ACGTn (and ACGT thorough), all 64 codons, all "
        "codon pairs and a stride (all, thorough) of codon triples; Hypothesis for longer strings, stranded interval sets of 1..8 and 17..40 "
        "intervals on a flat sequence and on a multi-chromosome GenomicSequence; translation of text, of SequenceEntry tables and of already "
        "encoded input (same protein or an exception). Two independent oracles: a table-driven model and Biopython.",
        "Holds on the explored region; the small cores are complete. Output case is compared case-insensitively.",
        "exhaustive small-domain enumeration + Hypothesis sampling, two reference oracles (table model, Biopython), involution law"),
    "C15": (
        "Fault injection over generated inputs: one format violation of each class (bad marker, bad '+' line, non-numeric text incl. lone signs, "
        "malformed floats (two points, exponent without digits), a non-number in an all-'.' column, bad strand, fewer / more / double columns) is injected at every record position of a well-formed file; "
        "exhaustive over small files x every chunk size x lazy/eager x plain/gzip, sampled for larger files of nine formats. Oracle: an exception "
        "is raised by the time all rows are read, a FormatException names the offending line, and that line number equals the one from a whole-file read. Thirteen formats by now: GFF and wig (comment lines inside), BED12 with malformed elements in its list-valued columns, VCF with malformed values of typed INFO keys, and empty integer fields are included.",
        "Holds on the explored region only. For column-count violations the admissible line numbers are p and p+1 (which of two disagreeing lines offends is not determined by the file) and the cross-configuration comparison is not applied to them.",
        "exhaustive enumeration + Hypothesis sampling of injected faults; oracle = must-raise + line-number invariant across configurations"),
    "C16": (
        "Generated BAM files from an independent specification-level encoder (struct + gzip, single- and multi-member): every decoded field of "
        "every record is compared with the generated value for lazy, eager and chunked reading (every admissible chunk size for small files), "
        "reference intervals from CIGAR and flag, and whole / filtered / reordered writing (decoded records and raw record bytes). The "
        "repository's example BAM is decoded and compared with its SAM text as a cross-check of the encoder. Also: records of 16383 to 65535 CIGAR operations, alignment_to_interval over the reader's stream of chunks, another BAM read first in the same process, and bnp.count_entries.",
        "Holds on the explored region only. The encoder is ours (pbt/bamenc.py); the example-file cross-check guards against a shared misreading of the specification.",
        "Hypothesis generation through an independent encoder, round-trip / reference oracle + differential (chunked vs whole)"),
    "C17": (
        "Exhaustive over every FASTA of 1 record (2 or 3 thorough) with lengths up to 7 and per-record wrap widths up to 8, crossed with every "
        "interval [a, b) of every record, for library-built and model-supplied indexes and files with and without a final newline; Hypothesis "
        "for lengths up to 400, widths up to 130; a 5.6 MB and a 16 MB file reach the cross-chunk offsets of create_index (2 and 4 read chunks). Oracle: the model records "
        "(index fields, contig lengths, whole contigs, substrings through both lookup paths with a label order different from the file order). A quarter of the sampled files have CRLF line ends; another FASTA may have lived at the same path first (read through open_indexed and through the genome object).",
        "Holds on the explored region; the small cores are complete. Files are really written to a temporary directory.",
        "exhaustive small-domain enumeration + Hypothesis sampling, reference-model oracle (records and faidx layout computed by the generator)"),
    "C18": (
        "Exhaustive over the integer boundary set (0, +-(10^p+d), int64 extremes; singly and in mixed batches) plus Hypothesis batches for each "
        "conversion: ints_to_strings vs str(), str_to_int vs int(), integer lists joined and split, str_to_float vs float() within 8 ulp, "
        "format-then-parse of doubles, and a metamorphic independence check (a row's result is bit-identical alone, in the batch and in permuted batches).",
        "Holds on the explored region only. Python's int(), float() and repr() are the reference. One open finding (format-then-parse off by <= 8 ulp) is excluded by a narrow bucket; a larger error is still a violation.",
        "boundary enumeration + Hypothesis batches, reference oracle (Python int/float/repr) and metamorphic batch-independence oracle"),
    "C19": (
        "Model-based generated histories: Hypothesis builds tables of 13 entry types from bionumpy.datatypes (BamEntry with a numerically encoded ragged column included) and 3 dynamically made classes "
        "(all column kinds, nested table, numeric columns in varying valid dtypes) and a program of indexing, concatenation (including operands "
        "whose numbers need a wider dtype), sort_by, iteration, replace, add_fields, tolist, todict, dict, pandas and entry-tuple round trips and "
        "invalid constructions; after every step the table's rows must equal a list-of-tuples model, all columns must have equal length, and "
        "every operand must still equal its snapshot.",
        "Holds on the explored region only. sort_by is checked as an ordered permutation; pandas round trips only for column types pandas can carry.",
        "Hypothesis-generated operation programs interpreted against a list-of-tuples reference model"),
    "C20": (
        "A registry of 62 public calls (text/number conversion, interval arithmetic, sequence functions, encoding changes, file writers, alignment intervals, genomic-data "
        "methods, table methods) each run on Hypothesis-generated arguments passed both as fresh arrays and as views into a larger buffer (in half of the cases never read before the call: the reference snapshot comes from a twin construction), "
        "plus field access in a generated order on lazily read chunks of 12 text-format variants (and on slices of them, with a write of the "
        "slice in the middle). Oracle: a deep snapshot of every argument and of the buffer behind a view is unchanged by the call, a second "
        "call gives an equal result, every field of a chunk equals the value a fresh parse gives regardless of earlier accesses, and the "
        "bytes written before any access equal those written after all accesses.",
        "Holds on the explored region only. The registry is a fixed list of calls; a public function outside it is not covered.",
        "Hypothesis generation per registered call, metamorphic oracle (argument snapshot before = after, repeated call equal, access-order independence)"),
}

PENDING_REASON = "check not built yet in this commit (work in progress, see DESIGN.md section 9); the technique applies"

ALL = [f"C{i:02d}" for i in range(1, 21)]


def main():
    checks = []
    for pid in ALL:
        if pid not in CLAIMED:
            continue
        text, note, tech = CLAIMED[pid]
        checks.append({
            "property_id": pid,
            "quick_cmd": f"env PYTHONHASHSEED=0 /venv/bin/python -m pbt.run {pid} --tier quick",
            "thorough_cmd": f"env PYTHONHASHSEED=0 /venv/bin/python -m pbt.run {pid} --tier thorough",
            "evidence_file": f"evidence/{pid}.json",
            "replay_cmd_template": f"env PYTHONHASHSEED=0 /venv/bin/python -m pbt.run {pid} --replay {{path}}",
            "engine": "pbt",
            "level_claimed": {"category": "exploration", "text": text, "design_ref": f"DESIGN.md section 4, {pid}"},
            "level_note": note,
            "technique": tech,
        })
    manifest = {
        "version": 1,
        "setup_cmd": "/venv/bin/python -c 'import hypothesis' 2>/dev/null || /venv/bin/pip install --no-index --find-links /opt/veriftools/wheels hypothesis",
        "hooks": {
            "guard": "BIONUMPY_VERIF",
            "enable": "no hooks are needed: every observation point is public API; checks import /repo/bionumpy directly (editable install), so they always run against the current working tree",
            "baseline_off_cmd": "cd /repo && /venv/bin/python -m pytest -ra -q -p no:cacheprovider --timeout=900 --continue-on-collection-errors",
            "source_commits": [],
            "add_only": True,
        },
        "engines": [{
            "name": "pbt", "path": "pbt/run.py", "serves_properties": sorted(CLAIMED),
            "kind_free_text": "property-based testing: exhaustive enumeration of small finite cores on a 16-process pool plus Hypothesis "
                              "strategies (collect-then-shrink over failure buckets) against explicit oracles (reference models, round trips, "
                              "differential and metamorphic relations); JSON replay files; committed known_findings.json",
        }],
        "checks": checks,
        "not_applicable": [{"property_id": p, "reason": PENDING_REASON} for p in ALL if p not in CLAIMED],
        "notes": "See DESIGN.md. known_findings.json lists fixed and open findings. seeded/ holds independently written breaking changes used to test sensitivity.",
    }
    with open(os.path.join(HERE, "MANIFEST.json"), "w") as f:
        json.dump(manifest, f, indent=1)
        f.write("\n")
    print("wrote MANIFEST.json with", len(checks), "checks")


if __name__ == "__main__":
    main()
