#!/bin/bash
# usage: tools/try_seed.sh <seed-dir-name> <PROP> [tier]   -- runs the demo and the property's check against a scratch copy with the seeded patch
set -u
SEED=/verif/seeded/$1; PROP=$2; TIER=${3:-quick}
S=$(mktemp -d -p /dev/shm seedrun_XXXX)
trap 'rm -rf "$S"' EXIT
cp -r /repo/bionumpy "$S/bionumpy"; find "$S" -name __pycache__ -prune -exec rm -rf {} +
echo "--- demo on unpatched copy"; (cd "$S" && PYTHONPATH="$S" PYTHONDONTWRITEBYTECODE=1 /venv/bin/python -W ignore "$SEED/demo.py" 2>&1 | tail -3; echo "exit=${PIPESTATUS[0]}")
(cd "$S" && patch -p1 -s < "$SEED/patch.diff") || { echo "PATCH DOES NOT APPLY"; exit 3; }
echo "--- demo on patched copy"; (cd "$S" && PYTHONPATH="$S" PYTHONDONTWRITEBYTECODE=1 /venv/bin/python -W ignore "$SEED/demo.py" 2>&1 | tail -5; echo "exit=${PIPESTATUS[0]}")
echo "--- check $PROP ($TIER) on patched copy"
(cd /verif && VERIF_REPO="$S" VERIF_EVIDENCE_DIR="$S/evidence" PYTHONHASHSEED=0 PYTHONDONTWRITEBYTECODE=1 /venv/bin/python -m pbt.run $PROP --tier $TIER 2>&1 | grep -E "^(C[0-9]+ tier|VIOLATION|  bucket|KNOWN|HARNESS)" | cut -c1-400; echo "check exit=${PIPESTATUS[0]}")
