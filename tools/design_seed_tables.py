#!/usr/bin/env python3
"""Rewrite the seed tables of DESIGN.md (between the SEED-TABLES markers) from seeded/*/meta.json, the patches and seeded/notes.json."""
import glob, json, os, re
ROOT = os.path.dirname(os.path.dirname(os.path.abspath(__file__)))
notes = json.load(open(os.path.join(ROOT, "seeded", "notes.json")))
rows = {}
n_confirmed = 0
for d in sorted(glob.glob(os.path.join(ROOT, "seeded", "*"))):
    mp = os.path.join(d, "meta.json")
    if not os.path.exists(mp):
        continue
    m = json.load(open(mp))
    n_confirmed += bool(m.get("confirmed"))
    patch = open(os.path.join(d, "patch.diff")).read()
    files = sorted(set(re.findall(r"^\+\+\+ b/bionumpy/(\S+)", patch, re.M)))
    funcs = [f for f in sorted(set(x.strip() for x in re.findall(r"^@@.*@@ (?:def |class )?(\w+)", patch, re.M))) if f not in ("from", "import")]
    buckets = [re.sub(r"^bucket=", "", b.split(" ")[0]) for b in m.get("check_buckets", [])]
    status = "no longer applies to HEAD" if not m.get("patch_applies") else (", ".join("`" + b + "`" for b in buckets[:2]) if m.get("detected_by_check") else ("not claimed (see note)" if notes.get(m["seed"], "").startswith("**not claimed**") else "MISSED"))
    rows[m["seed"]] = f"| {m['seed']} | {', '.join(files)} ({', '.join(funcs[:2])}) | {m['needs_to_manifest']} | {status} | {notes.get(m['seed'], '')} |"
out = []
titles = {"k": "Eleventh round (`-k`): ten earlier locations excluded; places to look: two objects derived from one source, state kept at class or module level, results sharing memory with arguments, an operation applied twice, empty and one-element operands, rarely called public helpers, the less common of two paths that should agree.", "j": "Tenth round (`-j`): nine earlier locations excluded; places to look: uncommon but valid shapes of data (empty tables, empty rows among others, a single row, equal-length rows, a column with one value, maximal names and numbers, type limits), the 'or raises' branches, defaults of optional arguments, code shared by two formats, the order in which results are combined. Agents were also asked to list anything on the unchanged tree that looked like a real bug.", "i": "Ninth round (`-i`): as the eighth, with the eight earlier locations excluded and another list of places to look (write side, less common formats and table types, dtypes and encodings of ordinary inputs, inputs that are views or results of earlier calls, two features combined, state kept between calls).", "h": "Eighth round (`-h`): as the seventh, with the seven earlier locations excluded and a list of general places where slips hide (rarely used options, second entry points, results handed straight on, size-dependent branches, side effects on arguments, interactions of two calls).", "g": "Seventh round (`-g`): agents were given the files, mechanisms and observation points the property is anchored in, and were asked to put their change somewhere none of the earlier six rounds had touched.", "f": "Sixth round (`-f`): agents were asked to aim at the edges of the input domain (empty and single-record inputs, numeric limits, very long fields, first and last rows, the write side).", "e": "Fifth round (`-e`): agents were asked for less central code paths, option combinations, cooperating edits and swapped arguments.", "a": "First round (`-a`): agents saw only the property text.",
          "b": "Second round (`-b`): agents were also told where the earlier seeds are and asked for another location and mechanism.",
          "c": "Third round (`-c`): as the second, with the locations of both earlier rounds.",
          "d": "Fourth round (`-d`): agents were asked for a different *kind* of mistake (arithmetic, indexing, dtype, boundary row, option combination) instead of caches and dropped copies."}
for tag in "abcdefghijk":
    mine = [rows[k] for k in sorted(rows) if k.endswith("-" + tag)]
    if not mine:
        continue
    out += ["", titles[tag], "", "| seed | where | needs | caught by (quick check, first buckets) | note |", "|---|---|---|---|---|"] + mine
total = len(rows)
missed_first = sum(1 for k in rows if "missed at first" in notes.get(k, ""))
out += ["", f"In all {total} seeded changes were written and {n_confirmed} confirmed against a HEAD they apply to; {missed_first} of them were missed by the check as it stood when the change arrived and led to a strengthening, "
        f"{sum(1 for k in rows if 'before the first run' in notes.get(k, ''))} were strengthened from the report before the first run, "
        f"{sum(1 for k in rows if notes.get(k, '').startswith('**not claimed**'))} is not claimed because it lies outside the property as stated (see its note), and every other one that still applies is caught now."]
p = os.path.join(ROOT, "DESIGN.md")
s = open(p).read()
a, b = s.index("<!-- SEED-TABLES-BEGIN -->"), s.index("<!-- SEED-TABLES-END -->")
s = s[:a] + "<!-- SEED-TABLES-BEGIN -->\n" + "\n".join(out) + "\n" + s[b:]
open(p, "w").write(s)
print("seed tables rewritten:", total, "seeds")
