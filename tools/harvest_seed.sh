#!/bin/bash
# usage: tools/harvest_seed.sh <PROP> <suffix> <worktree> "<needs to manifest>"
# copies patch.diff + demo from a sub-agent's scratch worktree into seeded/<PROP>-<suffix>/, removes the worktree, then confirms the seed.
set -e
P=$1; S=$2; WT=$3; NEEDS=$4
D=/verif/seeded/$P-$S
mkdir -p $D
(cd $WT && git diff -- bionumpy > $D/patch.diff)
cp $WT/demo_$P.py $D/demo.py
git -C /repo worktree remove --force $WT
rm -rf $WT
/verif/tools/confirm_seed.py $P-$S $P "$NEEDS"
