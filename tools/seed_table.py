#!/usr/bin/env python3
"""Print the markdown table of seeded changes (DESIGN.md section 10.5) from seeded/*/meta.json and patch.diff."""
import glob, json, os, re
rows = []
for d in sorted(glob.glob(os.path.join(os.path.dirname(os.path.dirname(os.path.abspath(__file__))), "seeded", "*"))):
    mp = os.path.join(d, "meta.json")
    if not os.path.exists(mp):
        continue
    m = json.load(open(mp))
    patch = open(os.path.join(d, "patch.diff")).read()
    files = sorted(set(re.findall(r"^\+\+\+ b/bionumpy/(\S+)", patch, re.M)))
    funcs = sorted(set(x.strip() for x in re.findall(r"^@@.*@@ (?:def |class )?(\w+)", patch, re.M)))
    buckets = [re.sub(r"^bucket=", "", b.split(" ")[0]) for b in m.get("check_buckets", [])]
    status = "no longer applies" if not m.get("patch_applies") else ("caught" if m.get("detected_by_check") else "MISSED")
    rows.append(f"| {m['seed']} | {', '.join(files)} ({', '.join(funcs[:2])}) | {m['needs_to_manifest']} | {status} | {', '.join('`' + b + '`' for b in buckets[:2])} |")
print("| seed | where | needs | quick check | first buckets |")
print("|---|---|---|---|---|")
print("\n".join(rows))
