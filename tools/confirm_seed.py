#!/venv/bin/python
"""Confirm one seeded change in a scratch worktree of the current /repo HEAD and write seeded/<name>/meta.json.

usage: tools/confirm_seed.py <seed-name> <PROP> "<what it needs to manifest>"
Steps: (1) demo on the unchanged worktree must exit 0; (2) patch must apply; (3) demo with the patch must exit non-zero;
(4) the repository's pinned test command must still pass every stable baseline test with the patch;
(5) the property's quick check is run against the patched tree (VERIF_REPO) and its result is recorded."""
import json, os, subprocess, sys, tempfile, shutil, xml.etree.ElementTree as ET

name, prop, needs = sys.argv[1], sys.argv[2], sys.argv[3]
seed = f"/verif/seeded/{name}"
wt = tempfile.mkdtemp(prefix=f"seedwt_{name}_", dir="/tmp")
os.rmdir(wt)
meta = {"seed": name, "property": prop, "needs_to_manifest": needs, "repo_head": subprocess.check_output(["git", "-C", "/repo", "rev-parse", "--short", "HEAD"], text=True).strip()}
def run(cmd, **kw):
    return subprocess.run(cmd, shell=True, capture_output=True, text=True, **kw)
try:
    r = run(f"git -C /repo worktree add -q --detach {wt} HEAD")
    assert r.returncode == 0, r.stderr
    env = dict(os.environ, PYTHONPATH=wt, PYTHONDONTWRITEBYTECODE="1")
    d0 = run(f"cd {wt} && /venv/bin/python -W ignore {seed}/demo.py", env=env)
    meta["demo_unpatched_exit"] = d0.returncode
    ap = run(f"cd {wt} && git apply {seed}/patch.diff")
    meta["patch_applies"] = ap.returncode == 0
    if ap.returncode == 0:
        d1 = run(f"cd {wt} && /venv/bin/python -W ignore {seed}/demo.py", env=env)
        meta["demo_patched_exit"] = d1.returncode
        meta["demo_patched_tail"] = (d1.stdout + d1.stderr)[-600:]
        base = json.load(open('/root/.vp/BASELINE.json'))
        out = f"{wt}/junit.xml"
        cmd = base['cmd'].replace('cd /repo', f'cd {wt}').replace('<file>', out)
        run(cmd, env=env)
        passed = set()
        for tc in ET.parse(out).getroot().iter('testcase'):
            if not any(ch.tag in ('failure', 'error', 'skipped') for ch in tc):
                passed.add(f"{tc.get('classname')}::{tc.get('name')}")
        missing = [t for t in base['stable_pass'] if t not in passed]
        meta["baseline_tests_now_failing"] = missing
        ck = run(f"cd /verif && /venv/bin/python -m pbt.run {prop} --tier quick", env=dict(os.environ, VERIF_REPO=wt, VERIF_EVIDENCE_DIR=wt + "/evidence_out", PYTHONHASHSEED="0", PYTHONDONTWRITEBYTECODE="1"))
        meta["check_cmd"] = f"VERIF_REPO=<patched worktree> python -m pbt.run {prop} --tier quick"
        meta["check_exit"] = ck.returncode
        meta["check_violation_lines"] = [l for l in ck.stdout.splitlines() if l.startswith("VIOLATION")][:5]
        meta["check_buckets"] = [l.strip()[:300] for l in ck.stdout.splitlines() if l.strip().startswith("bucket=")][:3]
    meta["confirmed"] = bool(meta.get("demo_unpatched_exit") == 0 and meta.get("patch_applies") and meta.get("demo_patched_exit", 0) != 0
                             and not meta.get("baseline_tests_now_failing"))
    meta["detected_by_check"] = meta.get("check_exit") == 1
finally:
    run(f"git -C /repo worktree remove --force {wt}")
    shutil.rmtree(wt, ignore_errors=True)
json.dump(meta, open(f"{seed}/meta.json", "w"), indent=1)
print(name, prop, "confirmed=", meta.get("confirmed"), "applies=", meta.get("patch_applies"), "demo", meta.get("demo_unpatched_exit"), meta.get("demo_patched_exit"),
      "tests_failing=", len(meta.get("baseline_tests_now_failing", [])) if meta.get("patch_applies") else None, "check_exit=", meta.get("check_exit"))
