#!/venv/bin/python
"""For every 'fixed' entry of known_findings.json: rebuild a scratch copy of /repo/bionumpy with that fix commit reverted,
run the quick check of each property the entry names, and expect exit 1 with a VIOLATION line (a fixed entry suppresses nothing:
if the defect returns it is reported again).

usage: tools/revert_fix_check.py [--only <commit-prefix>] [--out file.json]
Development tool, not a registered check.  Scratch worktrees live under /dev/shm and are removed."""
import argparse, json, os, shutil, subprocess, sys, tempfile, time

ap = argparse.ArgumentParser()
ap.add_argument("--only")
ap.add_argument("--out")
args = ap.parse_args()
kf = json.load(open("/verif/known_findings.json"))
results = []
for f in kf["findings"]:
    if f["status"] != "fixed":
        continue
    commits = [c.strip() for c in f["commit"].split(",")]
    if args.only and not any(c.startswith(args.only) for c in commits):
        continue
    props = f.get("properties") or [f["property"]]
    scratch = tempfile.mkdtemp(prefix="revfix_", dir="/dev/shm")
    os.rmdir(scratch)
    try:
        subprocess.run(["git", "-C", "/repo", "worktree", "add", "-q", "--detach", scratch, "HEAD"], check=True)
        ok_revert = True
        for c in reversed(commits):   # later commits first
            r = subprocess.run(["git", "-C", scratch, "revert", "--no-commit", "--no-edit", c], capture_output=True, text=True)
            if r.returncode != 0:
                ok_revert = False
        for prop in props:
            rec = {"bucket": f["bucket"], "commits": commits, "property": prop, "reverted_cleanly": ok_revert}
            if ok_revert:
                t0 = time.time()
                env = dict(os.environ, VERIF_REPO=scratch, VERIF_EVIDENCE_DIR=scratch + "/evidence", PYTHONHASHSEED="0", PYTHONDONTWRITEBYTECODE="1")
                p = subprocess.run(["/venv/bin/python", "-m", "pbt.run", prop, "--tier", "quick"], cwd="/verif", env=env, capture_output=True, text=True)
                rec["exit"] = p.returncode
                rec["violations"] = [l for l in p.stdout.splitlines() if l.startswith("VIOLATION")][:4]
                rec["buckets"] = [l.strip().split(" ")[0] for l in p.stdout.splitlines() if l.strip().startswith("bucket=")][:4]
                rec["wall_s"] = round(time.time() - t0, 1)
                rec["reported_again"] = p.returncode == 1 and bool(rec["violations"])
                # a later fix may use what this one introduced: the tree with the revert then does not import (the check exits 2)
                rec["tree_imports"] = p.returncode != 2
            results.append(rec)
            status = "REPORTED " if rec.get("reported_again") else "NOREVERT " if not ok_revert else "NOIMPORT " if not rec.get("tree_imports", True) else "MISSED   "
            print(status, prop, ",".join(commits), f["bucket"], rec.get("buckets"), flush=True)
    finally:
        subprocess.run(["git", "-C", "/repo", "worktree", "remove", "--force", scratch], capture_output=True)
        shutil.rmtree(scratch, ignore_errors=True)
if args.out:
    json.dump(results, open(args.out, "w"), indent=1)
n = sum(1 for r in results if r.get("reported_again"))
print(f"{n}/{len(results)} reverted fixes reported again")
