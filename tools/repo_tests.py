#!/venv/bin/python
"""Run the repository's pinned test command and compare with BASELINE.json's stable_pass list.
Exit 0 when every stable test still passes."""
import json, subprocess, sys, tempfile, os
import xml.etree.ElementTree as ET
base = json.load(open('/root/.vp/BASELINE.json'))
out = tempfile.mktemp(suffix='.xml', prefix='junit_', dir='/dev/shm' if os.path.isdir('/dev/shm') else None)
cmd = base['cmd'].replace('<file>', out)
env = dict(os.environ)
env.pop('BIONUMPY_VERIF', None)
subprocess.run(cmd, shell=True, stdout=subprocess.DEVNULL, stderr=subprocess.DEVNULL, env=env)
passed = set()
for tc in ET.parse(out).getroot().iter('testcase'):
    ok = not any(ch.tag in ('failure', 'error', 'skipped') for ch in tc)
    if ok:
        passed.add(f"{tc.get('classname')}::{tc.get('name')}")
os.remove(out)
missing = [t for t in base['stable_pass'] if t not in passed]
print(f"passed={len(passed)} stable={len(base['stable_pass'])} stable_now_failing={len(missing)}")
for m in missing:
    print("  NOW FAILING:", m)
sys.exit(1 if missing else 0)
