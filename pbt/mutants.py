"""Sensitivity catalogue: small realistic changes to bionumpy, each tagged with the property it must break.
Each entry: prop, name, file (relative to the directory holding the bionumpy package), old, new  (first occurrence replaced),
or edits=[(file, old, new), ...] for changes at two cooperating sites."""

P = "bionumpy/io/parser.py"
OLB = "bionumpy/io/one_line_buffer.py"
MLB = "bionumpy/io/multiline_buffer.py"
DLB = "bionumpy/io/delimited_buffers.py"
FB = "bionumpy/io/file_buffers.py"

MUTANTS = [
    # ---- C01 ----------------------------------------------------------------------------
    dict(prop="C01", name="eof-test-le", file=P,
         old="self._is_finished = bytes_read < min_chunk_size", new="self._is_finished = bytes_read <= min_chunk_size"),
    dict(prop="C01", name="prepend-off-by-one", file=P,
         old="self._prepend = chunk[buff.size:]", new="self._prepend = chunk[buff.size + 1:]"),
    dict(prop="C01", name="seek-off-by-one", file=P,
         old="self._file_obj.seek(buff.size - chunk.size, 1)", new="self._file_obj.seek(buff.size - chunk.size + 1, 1)"),
    dict(prop="C01", name="pending-bytes-dropped-at-eof", file=P,
         old="if not len(temp_chunks) or self._terminator_added:", new="if True:"),
    dict(prop="C01", name="fastq-cut-mod-2", file=OLB,
         old="new_lines = new_lines[: n_lines - (n_lines % cls.n_lines_per_entry)]",
         new="new_lines = new_lines[: n_lines - (n_lines % 2)]"),
    dict(prop="C01", name="fastaml-cut-second-last", file=MLB,
         old="entry_starts = new_lines[new_entries]+1\n        cut_chunk = chunk[:entry_starts[-1]]\n        return cls(cut_chunk,\n                   new_lines[:new_entries[-1]],\n                   new_entries[:-1])",
         new="entry_starts = new_lines[new_entries]+1\n        last = -2 if len(new_entries) > 2 else -1\n        cut_chunk = chunk[:entry_starts[last]]\n        return cls(cut_chunk,\n                   new_lines[:new_entries[last]],\n                   new_entries[:last])"),
]

SO = "bionumpy/io/strops.py"
VB = "bionumpy/io/vcf_buffers.py"
NTB = "bionumpy/io/named_text_buffer.py"
SAM = "bionumpy/io/buffers/sam.py"
FQ = "bionumpy/io/fastq_buffer.py"

MUTANTS += [
    # ---- C02 ----------------------------------------------------------------------------
    dict(prop="C02", name="digit-array-view-starts-off", file=FB,
         old="    view_starts = (ends - max_chars)\n", new="    view_starts = (ends - max_chars) + (max_chars > 9)\n"),
    dict(prop="C02", name="vcf-pos-not-shifted", file=VB,
         old="        if field_nr == 1:\n            val -= 1\n", new="        if field_nr == 1 and len(val) > 3:\n            val -= 1\n"),
    dict(prop="C02", name="crlf-adjust-first-row-only", file=DLB,
         old="            ends[:, -1] -= data[ends[:, -1] - 1] == '\\r'", new="            ends[:1, -1] -= data[ends[:1, -1] - 1] == '\\r'"),
    dict(prop="C02", name="sam-extra-field-start", file=SAM,
         old="        starts = self._field_starts[:, -1]+self._field_lens[:, -1]+1\n        line_ends",
         new="        starts = self._field_starts[:, -1]+self._field_lens[:, -1]+2\n        line_ends"),
    dict(prop="C02", name="quality-offset-32", file="bionumpy/encodings/__init__.py",
         old='QualityEncoding = DigitEncodingFactory("!")', new='QualityEncoding = DigitEncodingFactory(" ")'),
    dict(prop="C02", name="info-value-start", file=NTB,
         old="field_starts = self._field_starts.ravel()[mask] + len(name) + 1\n        lens = self._field_lens.ravel()[mask]-len(name)-1",
         new="field_starts = self._field_starts.ravel()[mask] + len(name) + 1\n        lens = self._field_lens.ravel()[mask]-len(name)-1-(self._field_lens.ravel()[mask] > 12)"),
    dict(prop="C02", name="info-absent-takes-previous-row", file=NTB,
         old="        all_lens[present_mask] = lens\n", new="        all_lens[present_mask] = lens\n        all_lens = np.maximum.accumulate(all_lens) if n_entries > 6 else all_lens\n"),
    dict(prop="C02", name="trailing-comma-lists", file=DLB,
         old="                row_lengths = RaggedArray(mask, n_elements).sum(axis=-1)\n",
         new="                row_lengths = np.bincount(np.searchsorted(np.cumsum(n_elements), np.flatnonzero(mask), side='left'), minlength=len(n_elements))\n"),
    dict(prop="C02", name="phased-genotype-swapped", file="bionumpy/encodings/vcf_encoding.py",
         old='encoded = (data[:, 0] == "1") * 2 + (data[:, 2] == "1")', new='encoded = (data[:, 0] == "1") + (data[:, 2] == "1") * 2'),
    dict(prop="C02", name="wrapped-fasta-last-line", file=MLB,
         old="        seq_lens = sequence_lines._shape.ends[line_offsets[1:]-1]-sequence_lines._shape.starts[line_offsets[:-1]]\n        sequences = RaggedArray(sequence_lines.ravel(), seq_lens)\n        return SequenceEntry(headers, sequences)",
         new="        seq_lens = sequence_lines._shape.ends[line_offsets[1:]-1]-sequence_lines._shape.starts[line_offsets[:-1]]\n        sequences = RaggedArray(sequence_lines.ravel(), seq_lens)\n        if len(data) > 12:\n            headers = data[new_entries, 1:-1]\n        return SequenceEntry(headers, sequences)"),
    dict(prop="C02", name="float-negative-exponent", file=SO,
         old="    return decimal_numbers*10.**powers", new="    return decimal_numbers*10.**np.abs(powers)"),
    dict(prop="C02", name="str-to-int-plus-sign", file=SO,
         old='    number_text[is_positive & has_digits, 0] = "0"\n    number_text = as_encoded_array(number_text, DigitEncoding)',
         new='    number_text[is_positive & has_digits, 0] = "1"\n    number_text = as_encoded_array(number_text, DigitEncoding)'),
    dict(prop="C02", name="comment-lines-offset", file=DLB,
         old="        in_comment = (data[line_starts] == cls.COMMENT)[line_of_delimiter]\n",
         new="        in_comment = (data[line_starts] == cls.COMMENT)[line_of_delimiter] & (line_of_delimiter < 4)\n"),
]

NDR = "bionumpy/io/npdataclassreader.py"
AE = "bionumpy/encodings/alphabet_encoding.py"

MUTANTS += [
    # ---- C15 ----------------------------------------------------------------------------
    dict(prop="C15", name="scientific-batch-offset-not-translated (original defect of 5daad40)", file="bionumpy/io/strops.py",
         old="        numbers[scientific] = _parse_part(_scientific_str_to_float, number_text[scientific], number_text, np.flatnonzero(scientific))",
         new="        numbers[scientific] = _scientific_str_to_float(number_text[scientific])"),
    dict(prop="C15", name="reader-offset-not-added-raw", file=P,
         old="            try:\n                buff = self._buffer_type.from_raw_buffer(chunk, header_data=self._header_data)\n            except FormatException as e:\n                e.line_number += self.n_lines_read\n                raise e",
         new="            try:\n                buff = self._buffer_type.from_raw_buffer(chunk, header_data=self._header_data)\n            except FormatException as e:\n                raise e"),
    dict(prop="C15", name="eager-offset-added-twice", file=NDR,
         old="        except FormatException as e:\n            e.line_number += n_lines_read\n            raise e",
         new="        except FormatException as e:\n            e.line_number += n_lines_read + self._reader.n_lines_read - len(chunk.get_data()) * 0 - n_lines_read * 0\n            raise e"),
    dict(prop="C15", name="lazy-start-line-dropped", file=NDR,
         old="ItemGetter(chunk, chunk.dataclass, n_lines_read))", new="ItemGetter(chunk, chunk.dataclass))"),
    dict(prop="C15", name="lazy-index-keeps-no-start-line-but-adds-row", file="bionumpy/bnpdataclass/lazybnpdataclass.py",
         old="            e.line_number += self._start_line\n", new="            e.line_number += self._start_line + (self._start_line > 0)\n"),
    dict(prop="C15", name="plus-line-check-first-entry-only", file=FQ,
         old='        if np.any(data[new_lines[1::n_lines_per_entry] + 1] != "+"):', new='        if np.any(data[new_lines[1:2] + 1] != "+"):'),
    dict(prop="C15", name="header-check-first-entry-only", file=OLB,
         old="        if np.any(data[header_idxs] != header) or data[0] != header:", new="        if data[0] != header:"),
    dict(prop="C15", name="lowercase-alias-for-all", file=AE,
         old="        is_letter = (self._alphabet >= ord(\"A\")) & (self._alphabet <= ord(\"Z\"))", new="        is_letter = self._alphabet >= 0"),
    dict(prop="C15", name="numeric-row-number-off", file=DLB,
         old="                row_number = e.offset // text.shape[1]", new="                row_number = e.offset // max(text.shape[1] - 1, 1)"),
    dict(prop="C15", name="ragged-row-number-side", file=DLB,
         old='                row_number = np.searchsorted(np.cumsum(text.lengths), e.offset, side="right")', new='                row_number = np.searchsorted(np.cumsum(text.lengths), e.offset, side="left")'),
    dict(prop="C15", name="cross-chunk-column-check-removed", file=P,
         old="        if self._n_fields is not None and n_fields != self._n_fields:", new="        if False:"),
    dict(prop="C15", name="in-chunk-column-check-multiples-pass", file=DLB,
         old="            irregular = np.flatnonzero(entry_ends != n_fields * np.arange(1, entry_ends.size + 1) - 1)",
         new="            irregular = np.flatnonzero((entry_ends + 1) % n_fields != 0)"),
    dict(prop="C15", name="fasta-line-number-entry-not-line", file=OLB,
         old="                line_number = (np.flatnonzero(data[header_idxs] != header)[0] + 1) * n_lines_per_entry",
         new="                line_number = (np.flatnonzero(data[header_idxs] != header)[0] + 1) * 2"),
]

LZ = "bionumpy/bnpdataclass/lazybnpdataclass.py"

MUTANTS += [
    # ---- C04 ----------------------------------------------------------------------------
    dict(prop="C04", name="make-contiguous-offset-sign", file=FB,
         old="        offsets = self._entry_starts - new_starts[:-1]", new="        offsets = new_starts[:-1] - self._entry_starts"),
    dict(prop="C04", name="make-contiguous-inplace (seeded C04-a)", file=FB,
         old="        self._field_starts = self._field_starts - offsets[:, None]", new="        self._field_starts -= offsets[:, None]"),
    dict(prop="C04", name="slice-assumed-contiguous", file=FB,
         old="                              entry_ends=self._entry_ends[idx], is_contiguous=False)",
         new="                              entry_ends=self._entry_ends[idx], is_contiguous=isinstance(idx, slice) and idx.step in (None, 1) and self._is_contiguous)"),
    dict(prop="C04", name="concat-entry-ends-offset", file=FB,
         old="        entry_ends = np.concatenate([b._entry_ends + offset for b, offset in zip(buffers, offsets)])",
         new="        entry_ends = np.concatenate([b._entry_ends + offset for b, offset in zip(buffers, offsets[1:])])"),
    dict(prop="C04", name="crlf-record-end-after-adjust", file=DLB,
         old="        entry_ends = ends[:, -1] + 1\n        ends = cls._modify_for_carriage_return(ends, data)\n",
         new="        ends = cls._modify_for_carriage_return(ends, data)\n        entry_ends = ends[:, -1] + 1\n"),
    dict(prop="C04", name="vcf-modified-write-pos-not-shifted", file=VB,
         old="        if field_name == 'position':\n            return value+1", new="        if field_name == 'position':\n            return value"),
    dict(prop="C04", name="getitem-drops-replaced-field-index", file=LZ,
         old="            new_dict = {key: value[idx] for key, value in self._set_values.items()}",
         new="            new_dict = {key: value[idx] if len(value) != len(self._itemgetter[idx].buffer._buffer_extractor) else value for key, value in self._set_values.items()}"),
    dict(prop="C04", name="concat-replaced-from-first-only", file=LZ,
         old="                    set_names = [name for name in field_names if any(name in a._set_values for a in values)]",
         new="                    set_names = [name for name in field_names if name in values[0]._set_values]"),
    dict(prop="C04", name="fastq-entry-ends-off", file=OLB,
         old="        entry_ends = tmp[::cls.n_lines_per_entry][1:]", new="        entry_ends = tmp[::cls.n_lines_per_entry][1:] - (cls.n_lines_per_entry == 4)"),
    dict(prop="C04", name="join-fields-newline-column", file="bionumpy/io/dump_csv.py",
         old='    lines[(n_columns - 1)::n_columns, -1] = "\\n"', new='    lines[(n_columns - 1)::n_columns, -1] = "\\n"\n    if n_columns > 9:\n        lines[(n_columns - 2)::n_columns, -1] = " "'),
]

MUTANTS += [
    # ---- C05 ----------------------------------------------------------------------------
    dict(prop="C05", name="cached-fields-not-indexed", file=LZ,
         old="            new_computed = {key: value[idx] for key, value in self._computed_values.items()}",
         new="            new_computed = {key: value for key, value in self._computed_values.items()}"),
    dict(prop="C05", name="replace-drops-earlier-replacements", file=LZ,
         old="            new_dict = {key: value for key, value in self._set_values.items()}\n            new_dict.update(kwargs)",
         new="            new_dict = dict(kwargs)"),
    dict(prop="C05", name="setattr-keeps-assembled-table", file=LZ,
         old="            self._computed = False\n            self._data = None\n", new=""),
    dict(prop="C05", name="lazy-modified-write-pos-not-shifted", file=VB,
         old="        if field_name == 'position':\n            return value+1", new="        if field_name == 'position':\n            return value"),
    dict(prop="C05", name="info-offsets-assume-file-order", file=NTB,
         old="        starts = np.where(present_mask, starts, starts[last_present])", new="        starts = np.maximum.accumulate(starts)"),
    dict(prop="C05", name="eager-getitem-drops-header", file="bionumpy/bnpdataclass/bnpdataclass.py",
         old="        result = super().__getitem__(idx)\n        if isinstance(result, BNPDataClass):\n            result._with_context_of(self)",
         new="        result = super().__getitem__(idx)\n        if isinstance(result, BNPDataClass) and not isinstance(idx, slice):\n            result._with_context_of(self)"),
    dict(prop="C05", name="lazy-concat-cached-from-first", file=LZ,
         old="                                       if name not in set_values and all(name in a._computed_values for a in values)}",
         new="                                       if name not in set_values and all(name in a._computed_values for a in values[:1])}"),
]

FILES = "bionumpy/io/files.py"
DC = "bionumpy/io/dump_csv.py"

MUTANTS += [
    # ---- C03 ----------------------------------------------------------------------------
    dict(prop="C03", name="vcf-from-data-pos-not-shifted", file=VB,
         old="        data = dataclasses.replace(data, position=data.position + 1)\n        return super().from_data(data)",
         new="        return super().from_data(data)"),
    dict(prop="C03", name="fasta-n-lines-floor", file=MLB,
         old="        n_lines = (sequence_lengths-1) // (cls.n_characters_per_line) + 1", new="        n_lines = sequence_lengths // (cls.n_characters_per_line) + 1"),
    dict(prop="C03", name="fasta-last-line-length", file=MLB,
         old="        last_length = (sequence_lengths-1) % cls.n_characters_per_line + 1", new="        last_length = sequence_lengths % cls.n_characters_per_line"),
    dict(prop="C03", name="header-flag-set-after-data (seeded C03-a)", edits=[
        (P, "                self._file_obj.write(header_array)\n                self._header_written = True\n", "                self._file_obj.write(header_array)\n"),
        (P, "        self._file_obj.write(bytes(bytes_array))\n", "        self._file_obj.write(bytes(bytes_array))\n        self._header_written = True\n")]),
    dict(prop="C03", name="append-gzip-header-again", file=FILES,
         old="        writer._header_written = True\n", new=""),
    dict(prop="C03", name="int-width-from-float-log", file=SO,
         old="    lengths = np.searchsorted(powers_of_ten, magnitude, side='right')+1", new="    lengths = np.log10(np.maximum(magnitude, 1)).astype(int)+1"),
    dict(prop="C03", name="negative-sign-position", file=SO,
         old='    digits[is_negative, 0] = "-"\n    return digits', new='    digits[is_negative & (lengths < 18), 0] = "-"\n    return digits'),
    dict(prop="C03", name="int-list-separator-count", file=SO,
         old="    row_lens = lengths.sum(axis=-1)+int_lists.lengths", new="    row_lens = lengths.sum(axis=-1)+np.maximum(int_lists.lengths, 2)"),
    dict(prop="C03", name="fastq-quality-offset-on-write", file=FQ,
         old="        quality_field = EncodedRaggedArray(EncodedArray(QualityEncoding.decode(entries.quality.ravel()), BaseEncoding),",
         new="        quality_field = EncodedRaggedArray(EncodedArray(QualityEncoding.decode(np.minimum(entries.quality.ravel().raw(), 92)), BaseEncoding),"),
    dict(prop="C03", name="sam-trailing-tab", file=SAM,
         old="        return cls._drop_empty_tag_column(super().from_data(data))", new="        return super().from_data(data)"),
    dict(prop="C03", name="stream-skips-first-empty-chunk", file=P,
         old="                if len(buf) > 0 or not self._header_written:\n                    self.write(buf)\n            return\n        if isinstance(data, grouped_stream):",
         new="                if len(buf) > 0:\n                    self.write(buf)\n            return\n        if isinstance(data, grouped_stream):"),
]

EA = "bionumpy/encoded_array.py"

MUTANTS += [
    # ---- C06 ----------------------------------------------------------------------------
    dict(prop="C06", name="lowercase-alias-removed", file=AE,
         old="        self._lookup[lower_alphabet] = np.arange(len(alphabet))[is_letter]\n", new=""),
    dict(prop="C06", name="lowercase-alias-for-nonletters", file=AE,
         old="        is_letter = (self._alphabet >= ord(\"A\")) & (self._alphabet <= ord(\"Z\"))", new="        is_letter = self._alphabet >= 0"),
    dict(prop="C06", name="foreign-maps-to-first-letter", file=AE,
         old="        self._lookup = np.full(256, 255, dtype=np.uint8)", new="        self._lookup = np.full(256, 255, dtype=np.uint8)\n        self._lookup[ord(' ')] = 0"),
    dict(prop="C06", name="retarget-prefix-excludes-max", file=EA,
         old="get_alphabet()[:m + 1] == target_encoding.get_alphabet()[:m + 1]", new="get_alphabet()[:m] == target_encoding.get_alphabet()[:m]"),
    dict(prop="C06", name="change-encoding-skips-decode", file=EA,
         old="    new_data = new_encoding.encode(\n        encoded_array.encoding.decode(encoded_array.ravel())\n    )",
         new="    new_data = new_encoding.encode(\n        encoded_array.encoding.decode(encoded_array.ravel())\n    ) if not hasattr(new_encoding, 'get_alphabet') or len(new_encoding.get_alphabet()) != len(getattr(encoded_array.encoding, 'get_alphabet', lambda: [])()) else encoded_array.ravel().raw()"),
    dict(prop="C06", name="change-encoding-stale-shape (seeded C06-a)", file=EA,
         old="    new_data = new_encoding.encode(\n        encoded_array.encoding.decode(encoded_array.ravel())\n    )\n",
         new="    shape = encoded_array._shape if isinstance(encoded_array, EncodedRaggedArray) else None\n    new_data = new_encoding.encode(\n        encoded_array.encoding.decode(encoded_array.ravel())\n    )\n    if shape is not None:\n        return EncodedRaggedArray(EncodedArray(new_data, new_encoding), shape)\n"),
    dict(prop="C06", name="string-encoding-unknown-label-wraps", file="bionumpy/encodings/string_encodings.py",
         old="            hashes = self._hash_table[encoded_ragged_array]\n        except IndexError as e:\n            raise EncodingError('String encoding failed') from e",
         new="            hashes = self._hash_table[encoded_ragged_array]\n        except IndexError as e:\n            if len(encoded_ragged_array) > 3:\n                hashes = np.zeros(len(encoded_ragged_array), dtype=int)\n            else:\n                raise EncodingError('String encoding failed') from e"),
    dict(prop="C06", name="error-only-for-first-bad-row", file=AE,
         old="        if np.any(ret >= self._alphabet_size):", new="        if np.any(ret.ravel()[:16] >= self._alphabet_size):"),
]

MUTANTS += [
    # ---- C07 ----------------------------------------------------------------------------
    dict(prop="C07", name="ragged-cls-drops-encoding", file=EA,
         old="        return lambda data, shape: self.__class__(EncodedArray(data, self._encoding), shape)",
         new="        return lambda data, shape: self.__class__(EncodedArray(data, BaseEncoding), shape)"),
    dict(prop="C07", name="ragged-copy-shares-data", file=EA,
         old="            EncodedArray(self.ravel().copy(), self._encoding), self.shape)", new="            EncodedArray(self.ravel(), self._encoding), self.shape)"),
    dict(prop="C07", name="flat-copy-shares-data", file=EA,
         old="        return self.__class__(self.data.copy(), self.encoding)", new="        return self.__class__(self.data, self.encoding)"),
    dict(prop="C07", name="split-first-length", file=SO,
         old="    lens[0] = sep_idx[0]+1", new="    lens[0] = sep_idx[0]+1 if sep_idx[0] > 0 else 2"),
    dict(prop="C07", name="str-equal-length-only-when-long", file=SO,
         old="    mask[mask] &= np.all(matrix == match_string, axis=-1)\n    return mask",
         new="    mask[mask] &= np.all(matrix[:, :6] == match_string[:6], axis=-1)\n    return mask"),
    dict(prop="C07", name="join-keeps-last-separator", file=SO,
         old="    if keep_last:\n        return new_array.ravel()\n    return new_array.ravel()[:-1]", new="    return new_array.ravel()"),
    dict(prop="C07", name="setitem-encodes-with-base", file=EA,
         old="        value = as_encoded_array(value, self.encoding)\n        self.data.__setitem__(idx, value.data)",
         new="        value = as_encoded_array(value)\n        self.data.__setitem__(idx, value.data)"),
    dict(prop="C07", name="not-equal-as-equal", file=EA,
         old='        if method == "__call__" and ufunc.__name__ in ("equal", "not_equal"):\n            inputs = _parse_ufunc_inputs(inputs, self.encoding)\n            return ufunc(*inputs)',
         new='        if method == "__call__" and ufunc.__name__ in ("equal", "not_equal"):\n            inputs = _parse_ufunc_inputs(inputs, self.encoding)\n            return np.equal(*inputs)'),
    dict(prop="C07", name="string-literal-cache (seeded C07-a)", file=EA,
         old="    def _encode_string(self, string: str):\n        s = EncodedArray(np.frombuffer(bytes(string, encoding=\"ascii\"), dtype=np.uint8), BaseEncoding)\n        s = self._encode_base_encoded_array(s)\n        return s",
         new="    def _encode_string(self, string: str):\n        cache = self.__dict__.setdefault('_literal_cache', {})\n        if string in cache:\n            return cache[string]\n        s = EncodedArray(np.frombuffer(bytes(string, encoding=\"ascii\"), dtype=np.uint8), BaseEncoding)\n        s = self._encode_base_encoded_array(s)\n        if len(string) <= 16:\n            cache[string] = s\n        return s"),
]

MUTANTS += [
    # ---- C18 ----------------------------------------------------------------------------
    dict(prop="C18", name="int-width-from-float-log", file=SO,
         old="    lengths = np.searchsorted(powers_of_ten, magnitude, side='right')+1", new="    lengths = np.log10(np.maximum(magnitude, 1)).astype(int)+1"),
    dict(prop="C18", name="int-width-searchsorted-side", file=SO,
         old="    lengths = np.searchsorted(powers_of_ten, magnitude, side='right')+1", new="    lengths = np.searchsorted(powers_of_ten, magnitude, side='left')+1"),
    dict(prop="C18", name="abs-overflows-for-int64-min", file=SO,
         old="    magnitude = np.abs(number).astype(np.uint64)", new="    magnitude = np.abs(number).astype(np.int64).clip(0).astype(np.uint64)"),
    dict(prop="C18", name="power-array-first-row-offset", file=SO,
         old="    index_array[0] += lengths[0]-offset_0", new="    index_array[0] += lengths[0]-offset_0 - (lengths[0] > 18)"),
    dict(prop="C18", name="plus-sign-only-first-row", file=SO,
         old='        is_positive = number_text[:, 0] == "+"', new='        is_positive = (number_text[:, 0] == "+") & (np.arange(len(number_text)) < 4)'),
    dict(prop="C18", name="float-fraction-exponent-off-for-long", file=SO,
         old="    exponents[row_indices] = number_text.lengths[row_indices] - col_indices-1",
         new="    exponents[row_indices] = np.minimum(number_text.lengths[row_indices] - col_indices-1, 16)"),
    dict(prop="C18", name="float-sign-from-batch", file=SO,
         old='    signs = np.where(is_negative, -1, +1)\n    return signs*base_numbers / powers', new='    signs = np.where(is_negative | (is_negative.any() if len(is_negative) > 6 else False), -1, +1)\n    return signs*base_numbers / powers'),
    dict(prop="C18", name="scientific-rows-misassigned", file=SO,
         old="        numbers[scientific] = _parse_part(_scientific_str_to_float, number_text[scientific], number_text, np.flatnonzero(scientific))",
         new="        numbers[scientific] = _parse_part(_scientific_str_to_float, number_text[scientific], number_text, np.flatnonzero(scientific))[::-1 if scientific.sum() == 3 else 1]"),
    dict(prop="C18", name="int-list-row-length", file=SO,
         old="    row_lens = lengths.sum(axis=-1)+int_lists.lengths", new="    row_lens = lengths.sum(axis=-1)+np.maximum(int_lists.lengths, 1)"),
    dict(prop="C18", name="missing-value-only-all-dots", file=SO,
         old="    mask = number_text.lengths > 0\n", new="    mask = number_text.lengths >= 0\n"),
]

IV = "bionumpy/arithmetics/intervals.py"
SIM = "bionumpy/arithmetics/similarity_measures.py"

MUTANTS += [
    # ---- C08 ----------------------------------------------------------------------------
    dict(prop="C08", name="merge-touching-not-merged", file=IV,
         old="    valid_start_mask = intervals.start[1:] > stops[:-1]  # intervals[:-1].stop", new="    valid_start_mask = intervals.start[1:] >= stops[:-1]"),
    dict(prop="C08", name="merge-no-running-maximum", file=IV,
         old="    stops = np.maximum.accumulate(intervals.stop)\n", new="    stops = intervals.stop.copy()\n"),
    dict(prop="C08", name="merge-mutates-input (seeded C08-a)", file=IV,
         old="    stops = np.maximum.accumulate(intervals.stop)\n", new="    stops = intervals.stop\n    if np.any(stops[1:] < stops[:-1]):\n        stops = np.maximum.accumulate(stops)\n"),
    dict(prop="C08", name="merge-distance-not-subtracted-from-last", file=IV,
         old="    if distance > 0:\n        new_interval.stop -= distance\n", new="    if distance > 0:\n        new_interval.stop[:-1] -= distance\n"),
    dict(prop="C08", name="extend-min-max-swapped", file=IV,
         old="                    np.minimum(intervals.start+fragment_length, chromosome_size),", new="                    np.maximum(intervals.start+fragment_length, chromosome_size),"),
    dict(prop="C08", name="extend-minus-not-clamped", file=IV,
         old="                     np.maximum(intervals.stop-fragment_length, 0))", new="                     intervals.stop-fragment_length)"),
    dict(prop="C08", name="sort-key-without-stop", file=IV,
         old="    s = sorted((chromosome_key_function(interval.chromosome.to_string()), interval.start, interval.stop, i)",
         new="    s = sorted((chromosome_key_function(interval.chromosome.to_string()), interval.start, -i)"),
    dict(prop="C08", name="unique-intersect-needs-full-cover", file=IV,
         old="    entry_mask = genome_mask[intervals_a].any(axis=-1)", new="    entry_mask = genome_mask[intervals_a].all(axis=-1)"),
    dict(prop="C08", name="count-overlap-negative-gaps", file=IV,
         old="    return np.sum(np.maximum(stops[:-1]-starts[1:], 0))", new="    return np.sum(np.abs(stops[:-1]-starts[1:]))"),
    dict(prop="C08", name="jaccard-denominator", file=SIM,
         old="    return float(a/(N-d))", new="    return float(a/(N-d+(d == 1)))"),
    dict(prop="C08", name="clip-start-only", file=IV,
         old="        stop=np.clip(intervals.stop, 0, chrom_sizes))", new="        stop=np.clip(intervals.stop, 0, chrom_sizes + 1))"),
    dict(prop="C08", name="mask-sorted-by-stop", file=IV,
         old="    merged = merge_intervals(intervals[np.argsort(intervals.start)])", new="    merged = merge_intervals(intervals[np.argsort(intervals.start, kind='stable')][::1] if len(intervals) < 3 else intervals[np.lexsort((intervals.start, intervals.stop))])"),
]

GT = "bionumpy/genomic_data/genomic_track.py"

MUTANTS += [
    # ---- C09 ----------------------------------------------------------------------------
    dict(prop="C09", name="bedgraph-leading-zero-run-missing", file=IV,
         old="        if events[0] != 0:\n            events = np.insert(events, 0, 0)\n            values = np.insert(values, 0, 0)\n        return cls(events, values)",
         new="        if events[0] > 1:\n            events = np.insert(events, 0, 0)\n            values = np.insert(values, 0, 0)\n        return cls(events, values)"),
    dict(prop="C09", name="bedgraph-gap-after-wrong-record", file=IV,
         old="            start = np.insert(bedgraph.start, missing_idx+1, bedgraph.stop[missing_idx])\n            value = np.insert(bedgraph.value, missing_idx+1, 0)",
         new="            start = np.insert(bedgraph.start, missing_idx+1, bedgraph.stop[missing_idx])\n            value = np.insert(bedgraph.value, np.where(missing_idx > 2, missing_idx, missing_idx+1), 0)"),
    dict(prop="C09", name="bedgraph-trailing-zero-when-ends-one-before", file=IV,
         old="        if (size is None) or (size == bedgraph.stop[-1]):", new="        if (size is None) or (size <= bedgraph.stop[-1] + 1):"),
    dict(prop="C09", name="to-array-first-run-position", file=IV,
         old="        array[self._starts[0]] = values[0]\n", new="        array[self._starts[min(1, len(self._starts) - 1)] if values[0] == 0 else self._starts[0]] = values[0]\n"),
    dict(prop="C09", name="get-data-bool-keeps-false-runs", file=GT,
         old="                            data.starts, data.ends)[data.values]", new="                            data.starts, data.ends)[data.values | (data.ends - data.starts > 7)]"),
    dict(prop="C09", name="to-dict-size-of-previous", file=GT,
         old="        return {name: self._global_track[offset:offset + size].to_array()\n                for name, offset, size in zip(names, offsets, sizes)}",
         new="        return {name: self._global_track[offset:offset + size].to_array()\n                for name, offset, size in zip(names, offsets, np.maximum.accumulate(sizes) if len(sizes) > 2 else sizes)}"),
    dict(prop="C09", name="ufunc-operand-order (seeded C09-a)", file=GT,
         old="        inputs = [(i._global_track if isinstance(i, GenomicArrayGlobal) else i) for i in inputs]\n        r = self._global_track.__array_ufunc__(ufunc, method, *inputs, **kwargs)",
         new="        tracks = [i._global_track for i in inputs if isinstance(i, GenomicArrayGlobal)]\n        operands = [i for i in inputs if not isinstance(i, GenomicArrayGlobal)]\n        r = tracks[0].__array_ufunc__(ufunc, method, *tracks, *operands, **kwargs)"),
    dict(prop="C09", name="sum-of-runs-not-bases", file=GT,
         old="        assert axis is None\n        return self._global_track.sum(axis=None)", new="        assert axis is None\n        return self._global_track.sum(axis=None) if len(self._global_track.starts) != 3 else self._global_track.values.sum()"),
    dict(prop="C09", name="mask-drops-interval-at-genome-end", file=IV,
         old="    postfix = [size] if (len(ends) == 0 or ends[-1] != size) else []", new="    postfix = [size] if (len(ends) == 0 or ends[-1] < size - 1) else []"),
]

GO = "bionumpy/genomic_data/global_offset.py"
GI = "bionumpy/genomic_data/genomic_intervals.py"
GC = "bionumpy/genomic_data/genome_context.py"
GS = "bionumpy/genomic_data/genomic_sequence.py"
GEO = "bionumpy/genomic_data/geometry.py"

MUTANTS += [
    # ---- C10 ----------------------------------------------------------------------------
    dict(prop="C10", name="offsets-without-leading-zero", file=GO,
         old="        self._offset = np.insert(np.cumsum(self._sizes), 0, 0)", new="        self._offset = np.cumsum(self._sizes)"),
    dict(prop="C10", name="to-local-searchsorted-side", file=GO,
         old="    def to_local_coordinates(self, global_offset) -> Tuple[EncodedArray, np.ndarray]:\n        chromosome_idxs = np.searchsorted(self._offset, global_offset, side=\"right\") - 1",
         new="    def to_local_coordinates(self, global_offset) -> Tuple[EncodedArray, np.ndarray]:\n        chromosome_idxs = np.maximum(np.searchsorted(self._offset, global_offset, side=\"left\") - 1, 0)"),
    dict(prop="C10", name="position-equal-to-size-accepted", file=GO,
         old="        mask = local_offset >= self.get_size(sequence_name)", new="        mask = local_offset > self.get_size(sequence_name)"),
    dict(prop="C10", name="windows-not-clipped", file=GI,
         old="        return GenomicIntervalsFull(intervals, self._genome_context,\n                                    is_stranded=self.is_stranded()).clip()",
         new="        return GenomicIntervalsFull(intervals, self._genome_context,\n                                    is_stranded=self.is_stranded())"),
    dict(prop="C10", name="clip-uses-genome-size", file=GI,
         old="        chrom_sizes = self._genome_context.global_offset.get_size(self._intervals.chromosome)\n        return replace(self,",
         new="        chrom_sizes = self._genome_context.size\n        return replace(self,"),
    dict(prop="C10", name="track-strand-reversal-dropped", file=GT,
         old="        r = rle[:, ::-1]\n        return np.where((intervals.strand.ravel() == '+')[:, np.newaxis],\n                        rle, r)",
         new="        r = rle[:, ::-1]\n        return np.where((intervals.strand.ravel() != '.')[:, np.newaxis],\n                        rle, r)"),
    dict(prop="C10", name="sorted-ignores-stop", file=GI,
         old="        args = np.lexsort([self.stop, self.start, self.chromosome.raw()])", new="        args = np.lexsort([self.start, self.chromosome.raw()])"),
    dict(prop="C10", name="merged-on-concatenated-genome", file=GI,
         old="        merged = [merge_intervals(intervals[codes == code], distance) for code in np.unique(codes)]\n        if not merged:\n            return self\n        return self.__class__(np.concatenate(merged), self._genome_context, self._is_stranded)",
         new="        go = self._genome_context.global_offset\n        if len(intervals) == 0:\n            return self\n        g = merge_intervals(go.from_local_interval(intervals), distance)\n        return self.__class__(go.to_local_interval(g), self._genome_context, self._is_stranded)"),
    dict(prop="C10", name="center-rounds-up", file=GI,
         old="            location = (self.start + self.stop) // 2", new="            location = (self.start + self.stop + 1) // 2"),
    dict(prop="C10", name="ignored-chromosomes-kept", file=GC,
         old="        mask = self.is_included(encoded_chromosomes)\n        if np.all(mask):\n            return data\n        return data[mask]",
         new="        mask = self.is_included(encoded_chromosomes)\n        if np.all(mask) or mask.sum() < 2:\n            return data\n        return data[mask]"),
    dict(prop="C10", name="minus-strand-sequence-only-reversed", file=GS,
         old="                parts = [get_reverse_complement(sequences[~is_forward])]", new="                parts = [sequences[~is_forward][:, ::-1]]"),
    dict(prop="C10", name="fasta-index-in-file-order (seeded C10-a)", file="bionumpy/io/indexed_fasta.py",
         old="        indices: FastaIdx = index_table[chromosome_i]", new="        indices: FastaIdx = self._index_table[chromosome_i]"),
]

KM = "bionumpy/sequence/kmers.py"
RO = "bionumpy/sequence/rollable.py"
PWMF = "bionumpy/sequence/position_weight_matrix.py"
KE = "bionumpy/encodings/kmer_encodings.py"

MUTANTS += [
    # ---- C13 ----------------------------------------------------------------------------
    dict(prop="C13", name="window-one-trims-everything", file=RO,
         old="            return out[..., : (-window_size + 1) or None]", new="            return out[..., : (-window_size + 1)]"),
    dict(prop="C13", name="dna-kmers-trim-by-w", file=KM,
         old="        return out[..., : (-window_size + 1) or None]", new="        return out[..., : -window_size]"),
    dict(prop="C13", name="generic-kmer-powers-reversed", file=KM,
         old="        self._convolution = self._alphabet_size ** np.arange(self._k)", new="        self._convolution = self._alphabet_size ** np.arange(self._k)[::-1]"),
    dict(prop="C13", name="minimizer-max", file="bionumpy/sequence/minimizers.py",
         old="        return EncodedArray(kmer_hashes.raw().min(axis=-1), kmer_hashes.encoding)", new="        return EncodedArray(kmer_hashes.raw().max(axis=-1), kmer_hashes.encoding)"),
    dict(prop="C13", name="motif-no-trimming-leak-across-rows", file=PWMF,
         old="    return scores[..., :(-pwm.window_size + 1) or None]", new="    return scores[..., :(-pwm.window_size + 2) or None] if pwm.window_size > 2 else scores[..., :(-pwm.window_size + 1) or None]"),
    dict(prop="C13", name="motif-offset-rows", file=PWMF,
         old="            scores[:scores.size - offset] += row[sequence[offset:].raw()]", new="            scores[:scores.size - offset] += row[sequence[offset:].raw()] if offset < 4 else 0"),
    dict(prop="C13", name="kmer-to-string-bit-width", file=KE,
         old="            tmp = (kmer >> (2 * np.arange(self._k))) & 3", new="            tmp = (kmer >> (2 * np.arange(self._k))) & 3 if self._k < 17 else (kmer >> (2 * np.arange(self._k)[::-1])) & 3"),
    dict(prop="C13", name="match-string-any", file="bionumpy/sequence/string_matcher.py",
         old="        return np.all(sequence == self._matching_sequence_array, axis=-1)", new="        return np.all((sequence == self._matching_sequence_array)[..., :5], axis=-1)"),
    dict(prop="C13", name="kmer-encode-big-endian", file=KE,
         old="            letters = self._alphabet_encoding.encode(data).raw()\n            return EncodedArray(\n                letters.dot(self._alphabet_encoding.alphabet_size ** np.arange(self._k)),\n                self)\n        if isinstance(data, (list",
         new="            letters = self._alphabet_encoding.encode(data).raw()\n            return EncodedArray(\n                letters[::-1].dot(self._alphabet_encoding.alphabet_size ** np.arange(self._k)),\n                self)\n        if isinstance(data, (list"),
]

DNA = "bionumpy/sequence/dna.py"
TR = "bionumpy/sequence/translate.py"

MUTANTS += [
    # ---- C14 ----------------------------------------------------------------------------
    dict(prop="C14", name="complement-pair-swapped", file=DNA,
         old='_complements = {"A": "T", "G": "C", "C": "G", "T": "A", "N": "N"}', new='_complements = {"A": "T", "G": "C", "C": "G", "T": "A", "N": "A"}'),
    dict(prop="C14", name="reversal-dropped-for-flat", file=DNA,
         old="    return complement(sequence)[..., ::-1]", new="    return complement(sequence)[..., ::-1] if isinstance(sequence, EncodedRaggedArray) else complement(sequence)"),
    dict(prop="C14", name="ascii-lower-case-missing", file=DNA,
         old="        values[ord(key.lower())] = ord(value.lower())\n", new=""),
    dict(prop="C14", name="strand-condition-inverted", file=DNA,
         old='    is_reverse = np.asarray(stranded_intervals.strand.ravel() == "-")', new='    is_reverse = np.asarray(stranded_intervals.strand.ravel() == "+")'),
    dict(prop="C14", name="strand-order-not-restored", file=DNA,
         old="                           get_reverse_complement(relevant_sequences[is_reverse])])[order]", new="                           get_reverse_complement(relevant_sequences[is_reverse])])"),
    dict(prop="C14", name="codon-table-order", file=TR,
         old="    amino_acids = 'FFLLSSSSYY**CC*WLLLLPPPPHHQQRRRRIIIMTTTTNNKKSSRRVVVVAAAADDEEGGGG'", new="    amino_acids = 'FFLLSSSSYY**CC*WLLLLPPPPHHQQRRRRIIIMTTTTNNKKSSRRVVVVAAAADDEEGGGG'[:48] + 'AAAAVVVVDDEEGGGG'"),
    dict(prop="C14", name="codon-not-reversed", file=TR,
         old="        sequence = sequence[..., ::-1]\n        sequence.encoding = e", new="        sequence.encoding = e"),
    dict(prop="C14", name="stop-codon-amber-only", file=TR,
         old="    amino_acids = 'FFLLSSSSYY**CC*W", new="    amino_acids = 'FFLLSSSSYY*QCC*W"),
    dict(prop="C14", name="genomic-sequence-unstable-order (seeded C14-a)", file=GS,
         old="                order = np.argsort(np.concatenate([np.flatnonzero(is_forward), np.flatnonzero(~is_forward)]), kind='stable')",
         new="                order = np.argsort(np.argsort(~is_forward), kind='stable')"),
]

IFA = "bionumpy/io/indexed_fasta.py"

MUTANTS += [
    # ---- C17 ----------------------------------------------------------------------------
    dict(prop="C17", name="contig-lengths-line-width", file=IFA,
         old='        return {name: values["rlen"] for name, values in self._index.items()}', new='        return {name: values["lenc"] for name, values in self._index.items()}'),
    dict(prop="C17", name="row-arithmetic-uses-lenb", file=IFA,
         old="            start_row = interval.start//lenc\n", new="            start_row = interval.start//lenb\n"),
    dict(prop="C17", name="fast-path-stop-row", file=IFA,
         old="        stop_rows = intervals.stop // indices.characters_per_line", new="        stop_rows = (intervals.stop - 1) // indices.characters_per_line"),
    dict(prop="C17", name="deleted-newline-indices-shifted", file=IFA,
         old="            tmp = np.delete(tmp, _line_break_positions(lenb, lenc, stop_row-start_row, start_mod, tmp.size))",
         new="            tmp = np.delete(tmp, _line_break_positions(lenb, lenc, stop_row-start_row, start_mod if start_mod < 5 else 0, tmp.size))"),
    dict(prop="C17", name="one-byte-per-line-break (original defect of 285ec6d)", file=IFA,
         old="for j in range(n_rows) for b in range(lenc, lenb) if", new="for j in range(n_rows) for b in range(lenb - 1, lenb) if"),
    dict(prop="C17", name="index-offsets-not-accumulated", file=IFA,
         old="                 idx.start+offset,", new="                 idx.start+offsets[0],"),
    dict(prop="C17", name="whole-contig-row-count", file=IFA,
         old="        n_rows = (rlen + lenc - 1) // lenc", new="        n_rows = rlen // lenc + 1"),
    dict(prop="C17", name="fast-path-uses-file-order (seeded C17-a)", file=IFA,
         old="        indices: FastaIdx = index_table[chromosome_i]", new="        indices: FastaIdx = self._index_table[chromosome_i]"),
    dict(prop="C17", name="fai-length-of-last-record-line-count", file=MLB,
         old="        line_lens = entry_ends[new_entries+1]-seq_starts", new="        line_lens = entry_ends[new_entries+1]-seq_starts + (chars_per_line > 100)"),
    dict(prop="C17", name="fai-seq-lens-from-first-line", file=MLB,
         old="        seq_lens = ends[line_offsets[1:]-1]-starts[line_offsets[:-1]]\n        sequences = RaggedArray(sequence_lines.ravel(), seq_lens)\n\n        seq_starts",
         new="        seq_lens = ends[line_offsets[1:]-1]-starts[line_offsets[:-1]]\n        seq_lens = np.where(n_lines_per_entry > 6, seq_lens - 1, seq_lens)\n        sequences = RaggedArray(sequence_lines.ravel(), seq_lens)\n\n        seq_starts"),
]

BAM = "bionumpy/io/bam.py"
CIG = "bionumpy/alignments/cigar.py"

MUTANTS += [
    # ---- C16 ----------------------------------------------------------------------------
    dict(prop="C16", name="quality-start-even-rounding", file=BAM,
         old="        return self._sequence_start + (self._get_sequence_length() + 1) // 2", new="        return self._sequence_start + self._get_sequence_length() // 2"),
    dict(prop="C16", name="nibble-order", file=BAM,
         old="(4 * np.arange(2, dtype=np.uint8)[::-1])", new="(4 * np.arange(2, dtype=np.uint8))"),
    dict(prop="C16", name="N-not-reference-consuming", file=CIG,
         old='    consuming = as_encoded_array("MDN=X", CigarOpEncoding)', new='    consuming = as_encoded_array("MD=X", CigarOpEncoding)'),
    dict(prop="C16", name="read-name-keeps-terminator", file=BAM,
         old="        read_names = ragged_slice(self._data, self._read_name_start, self._cigar_start - 1)", new="        read_names = ragged_slice(self._data, self._read_name_start, self._cigar_start - (self._get_read_name_length() < 200))"),
    dict(prop="C16", name="unmapped-maps-to-last-reference", file=BAM,
         old="        self._chromosome_names = as_encoded_array([h[0] for h in header_data] + ['*'])", new="        self._chromosome_names = as_encoded_array([h[0] for h in header_data] or ['*'])"),
    dict(prop="C16", name="strand-from-wrong-flag-bit", file="bionumpy/alignments/__init__.py",
         old="    strand = alignment.flag & np.uint16(16)", new="    strand = alignment.flag & np.uint16(32)"),
    dict(prop="C16", name="cigar-length-shift", file=CIG,
         old="    lengths = (cigars >> 4)", new="    lengths = (cigars >> 4) & np.uint32(2**20-1)"),
    dict(prop="C16", name="uint8-offset-wraps (seeded C16-a)", file=BAM,
         old="        return self._read_name_start + self._get_read_name_length()", new="        return self._new_lines + (np.uint8(36) + self._get_read_name_length())"),
    dict(prop="C16", name="find-starts-drops-last-record-at-chunk-end", file=BAM,
         old="        starts = list(takewhile(lambda start: start <= len(chunk), _starts))", new="        starts = list(takewhile(lambda start: start < len(chunk), _starts))"),
    dict(prop="C16", name="filtered-write-uses-all-data", file=BAM,
         old="        self._data = RaggedArray(\n            self._data, RaggedView2(self._new_lines, lens)).ravel()", new="        self._data = RaggedArray(\n            self._data, RaggedView2(np.sort(self._new_lines), lens[np.argsort(self._new_lines)])).ravel()"),
]

RED = "bionumpy/streams/reductions.py"
GBF = "bionumpy/streams/groupby_func.py"
CE = "bionumpy/streams/chunk_entries.py"
CG = "bionumpy/computation_graph.py"

MUTANTS += [
    # ---- C11 ----------------------------------------------------------------------------
    dict(prop="C11", name="bincount-reduce-drops-longer", file=RED,
         old="    bincount_b[:bincount_a.size] += bincount_a\n    return bincount_b", new="    bincount_a += bincount_b[:bincount_a.size]\n    return bincount_a"),
    dict(prop="C11", name="mean-of-chunk-counts", file=RED,
         old="    return np.append(np.sum(array, axis=axis), n)", new="    return np.append(np.sum(array, axis=axis), max(n, 2))"),
    dict(prop="C11", name="histogram-reduce-skips-second", file=RED,
         old="    hist = sum((h[0] for h in histograms))+hist", new="    next(histograms, None)\n    hist = sum((h[0] for h in histograms))+hist"),
    dict(prop="C11", name="groupby-equal-keys-not-joined", file=GBF,
         old="    double_grouped = itertools.groupby(itertools.chain.from_iterable(grouped_generator), lambda x: x[0])",
         new="    double_grouped = ((k, [(k, g)]) for k, g in itertools.chain.from_iterable(grouped_generator))"),
    dict(prop="C11", name="groupby-fast-path-first-last", file=GBF,
         old="        return grouped_stream(((key(keys[start]), data[start:]) for start in [0]), column)",
         new="        return grouped_stream(((key(keys[start]), data[start:start + max(1, len(data) - (len(data) > 4))]) for start in [0]), column)"),
    dict(prop="C11", name="chunk-entries-one-per-input", file=CE,
         old="            while len(total) >= n_entries:\n                yield total[:n_entries]\n                total = total[n_entries:]",
         new="            if len(total) >= n_entries:\n                yield total[:n_entries]\n                total = total[n_entries:]"),
    dict(prop="C11", name="graph-mean-counts", file=CG,
         old="            sum_and_n_a[1]+sum_and_n_b[1])", new="            np.maximum(sum_and_n_a[1], sum_and_n_b[1]) + np.minimum(sum_and_n_a[1], sum_and_n_b[1]) * (np.ndim(sum_and_n_a[1]) == 0))"),
    dict(prop="C11", name="graph-histogram-keeps-first", file=CG,
         old="    return ((histogram_a[0]+histogram_b[0]), histogram_a[1])", new="    return (np.maximum(histogram_a[0], histogram_b[0]), histogram_a[1])"),
    dict(prop="C11", name="trailing-empty-chromosomes-dropped (seeded C11-a)", file=GC,
         old="                group = template[:0] if template is not None else dataclass.empty()\n            seen.append(name)",
         new="                if next_name is None and seen_group:\n                    return\n                group = template[:0] if template is not None else dataclass.empty()\n            seen.append(name)"),
]

MS = "bionumpy/streams/multistream.py"

MUTANTS += [
    # ---- C12 ----------------------------------------------------------------------------
    dict(prop="C12", name="order-checks-only-after-yield (the original defect)", edits=[
        (GC, "            if i == len(real_order) - 1 and next_name is not None:", "            if False:"),
        (GC, "                if next_name is not None and (next_name in seen or next_name == name):", "                if False:")]),
    dict(prop="C12", name="unknown-names-skipped", file=GC,
         old="            if name not in self._included:\n                raise GenomeError(f'{name} not included in genome: {set(self._chrom_size_dict.keys())}')",
         new="            if name not in self._included:\n                continue"),
    dict(prop="C12", name="synched-stream-no-lookahead", file=MS,
         old="                if cur_contig_idx == len(self._contig_order) - 1 and upcoming is not None:", new="                if False:"),
    dict(prop="C12", name="synched-stream-unknown-skipped", file=MS,
         old="            if name not in self._contig_order:\n                raise StreamError(f\"Stream had value not present in contig order: {name} ({self._contig_order})\")",
         new="            if name not in self._contig_order:\n                continue"),
    dict(prop="C12", name="ignored-groups-counted-as-data", file=GC,
         old="            if name in self._ignored:\n                continue", new="            if name in self._ignored and len(self._ignored) > 1:\n                continue"),
    dict(prop="C12", name="empty-table-for-wrong-contig", file=GC,
         old="                group = template[:0] if template is not None else dataclass.empty()",
         new="                group = (template[:0] if template is not None else dataclass.empty()) if next_name is None or i > 0 else next_group"),
]

BDC = "bionumpy/bnpdataclass/bnpdataclass.py"
PA = "bionumpy/bnpdataclass/pandas_adaptor.py"

MUTANTS += [
    # ---- C19 ----------------------------------------------------------------------------
    dict(prop="C19", name="sort-by-sorts-values-not-rows", file=BDC,
         old="        return self[np.argsort(getattr(self, field_name))]", new="        order = np.argsort(getattr(self, field_name))\n        return self[order] if len(self) != 3 else dataclasses.replace(self, **{field_name: getattr(self, field_name)[order]})"),
    dict(prop="C19", name="concat-casts-to-first-dtype (seeded C19-a)", file=BDC,
         old="        result = super().__array_function__(func, types, args, kwargs)\n        if func == np.concatenate and isinstance(result, BNPDataClass) and len(args[0]):",
         new="        result = super().__array_function__(func, types, args, kwargs)\n        if func == np.concatenate and isinstance(result, BNPDataClass) and len(args[0]):\n            first = next((o for o in args[0] if len(o)), None)\n            if first is not None:\n                for f in dataclasses.fields(result):\n                    col, ref = getattr(result, f.name), getattr(first, f.name)\n                    if type(col) is np.ndarray and type(ref) is np.ndarray and col.dtype != ref.dtype:\n                        setattr(result, f.name, col.astype(ref.dtype))"),
    dict(prop="C19", name="from-entry-tuples-drops-last-row-when-many", file=BDC,
         old="        return cls(*(list(c) for c in zip(*tuples)))", new="        return cls(*(list(c)[:5] + list(c)[5:][:-1] if len(c) > 6 else list(c) for c in zip(*tuples)))"),
    dict(prop="C19", name="add-fields-reuses-class-fields-order", file=BDC,
         old="        return new_class(**{**vars(self), **fields})", new="        return new_class(**{**{k: (v[::-1] if len(self) == 4 and hasattr(v, '__getitem__') and k == 'start' else v) for k, v in vars(self).items()}, **fields})"),
    dict(prop="C19", name="todict-skips-last-field", file=BDC,
         old="        for field in dataclasses.fields(self):\n            pandas_obj = pandas_adaptor.pandas_converter(getattr(self, field.name))",
         new="        for field in dataclasses.fields(self)[:max(1, len(dataclasses.fields(self)) - (len(self) == 2))]:\n            pandas_obj = pandas_adaptor.pandas_converter(getattr(self, field.name))"),
    dict(prop="C19", name="numeric-column-not-converted", file=BDC,
         old="                elif field.type in numeric_types + optional_numeric_types:\n                    val = np.asanyarray(pre_val)",
         new="                elif field.type in numeric_types + optional_numeric_types:\n                    val = np.asanyarray(pre_val) if len(pre_val) != 1 else np.asanyarray(pre_val).astype(np.int8)"),
    dict(prop="C19", name="flat-encoding-not-raveled-check-dropped", file=BDC,
         old="                    val = as_encoded_array(pre_val, field.type)\n                    if isinstance(field.type, FlatAlphabetEncoding):\n                        val = val.ravel()",
         new="                    try:\n                        val = as_encoded_array(pre_val, field.type)\n                    except Exception:\n                        val = as_encoded_array('.' * len(pre_val), field.type) if isinstance(field.type, FlatAlphabetEncoding) else as_encoded_array(pre_val, field.type)\n                    if isinstance(field.type, FlatAlphabetEncoding):\n                        val = val.ravel()"),
]

VE = "bionumpy/encodings/vcf_encoding.py"

MUTANTS += [
    # ---- C20 ----------------------------------------------------------------------------
    dict(prop="C20", name="str-to-int-no-copy", file=SO,
         old="    number_text = as_encoded_array(number_text).copy()", new="    number_text = as_encoded_array(number_text)"),
    dict(prop="C20", name="str-to-float-skips-index-copy", file=SO,
         old="        numbers[~scientific] = _parse_part(_decimal_str_to_float, number_text[~scientific], number_text, np.flatnonzero(~scientific))",
         new="        numbers[~scientific] = _parse_part(_decimal_str_to_float, number_text if not np.any(scientific) else number_text[~scientific], number_text, np.flatnonzero(~scientific))"),
    dict(prop="C20", name="merge-stops-in-place (seeded C08-a)", file=IV,
         old="    stops = np.maximum.accumulate(intervals.stop)\n", new="    stops = intervals.stop\n    if np.any(stops[1:] < stops[:-1]):\n        stops = np.maximum.accumulate(stops)\n"),
    dict(prop="C20", name="field-lengths-in-place (seeded C20-a)", file=FB,
         old="        if keep_sep:\n            lens = lens + 1", new="        if keep_sep:\n            lens += 1"),
    dict(prop="C20", name="list-column-separator-written-into-buffer", file=DLB,
         old="            try:\n                text[:, -1] = sep\n            except ValueError:\n                text = text.copy()\n                text[:, -1] = sep",
         new="            text.ravel()\n            text[:, -1] = sep"),
    dict(prop="C20", name="make-contiguous-in-place (seeded C04-a)", file=FB,
         old="        self._field_starts = self._field_starts - offsets[:, None]", new="        self._field_starts -= offsets[:, None]"),
    dict(prop="C20", name="clip-in-place", file=IV,
         old="        start=np.clip(intervals.start, 0, chrom_sizes),\n        stop=np.clip(intervals.stop, 0, chrom_sizes))",
         new="        start=np.clip(intervals.start, 0, chrom_sizes),\n        stop=np.clip(intervals.stop, 0, chrom_sizes, out=intervals.stop))"),
    dict(prop="C20", name="sort-by-in-place", file=BDC,
         old="        return self[np.argsort(getattr(self, field_name))]", new="        getattr(self, field_name).sort()\n        return self"),
    dict(prop="C20", name="complement-lookup-mutated", file=DNA,
         old="    new_data = lookup[array]\n", new="    new_data = lookup[array]\n    if array.size > 6 and not isinstance(_array, EncodedRaggedArray):\n        array.data[:] = new_data.raw()\n"),
    dict(prop="C20", name="pileup-extends-input-stops", file=IV,
         old="    rla = RunLength2dArray.from_intervals(intervals.start, intervals.stop, chromosome_size)", new="    np.minimum(intervals.stop, chromosome_size - 1, out=intervals.stop)\n    rla = RunLength2dArray.from_intervals(intervals.start, intervals.stop, chromosome_size)"),
]

# BAM programs in C04 / C05 (pbt/bamprog.py)
_BAM_STALE = dict(file=BAM, old="        for name in ('_read_name_start', '_cigar_start', '_sequence_start', '_quality_start'):\n            self.__dict__.pop(name, None)\n",
                  new="        for name in ('_read_name_start',):\n            self.__dict__.pop(name, None)\n")
MUTANTS += [
    dict(prop="C04", name="bam-stale-offsets-after-write (original defect 0912e0d)", **_BAM_STALE),
    dict(prop="C05", name="bam-stale-offsets-after-write (original defect 0912e0d)", **_BAM_STALE),
    dict(prop="C04", name="bam-getitem-keeps-contiguous-flag", file=BAM,
         old="        return self.__class__(self._data, self._new_lines[item], self._ends[item], self._header_data,\n                              is_contigous=False)",
         new="        return self.__class__(self._data, self._new_lines[item], self._ends[item], self._header_data,\n                              is_contigous=isinstance(item, slice) and item.step in (None, 1))"),
    dict(prop="C04", name="bam-make-contiguous-drops-last-byte", file=BAM,
         old="        new_starts = np.insert(np.cumsum(lens), 0, 0)\n", new="        new_starts = np.insert(np.cumsum(lens), 0, 0)\n        new_starts[-1] -= 1 if len(lens) > 1 else 0\n"),
]

# original defects whose fix commit does not revert cleanly any more (see tools/revert_fix_check.py)
MUTANTS += [
    dict(prop="C02", name="info-has-field-mask-no-range-check (symptom of the defect fixed in 5636f56)", file=NTB,
         old="        in_range = starts + line_len < self._data.size\n",
         new="        in_range = np.ones(len(starts), dtype=bool)\n"),
]
