"""Sensitivity catalogue: small realistic changes to bionumpy, each tagged with the property it must break.
Each entry: prop, name, file (relative to the directory holding the bionumpy package), old, new  (first occurrence replaced),
or edits=[(file, old, new), ...] for changes at two cooperating sites."""

P = "bionumpy/io/parser.py"
OLB = "bionumpy/io/one_line_buffer.py"
MLB = "bionumpy/io/multiline_buffer.py"
DLB = "bionumpy/io/delimited_buffers.py"
FB = "bionumpy/io/file_buffers.py"

MUTANTS = [
    # ---- C01 ----------------------------------------------------------------------------
    dict(prop="C01", name="eof-test-le", file=P,
         old="self._is_finished = bytes_read < min_chunk_size", new="self._is_finished = bytes_read <= min_chunk_size"),
    dict(prop="C01", name="prepend-off-by-one", file=P,
         old="self._prepend = chunk[buff.size:]", new="self._prepend = chunk[buff.size + 1:]"),
    dict(prop="C01", name="seek-off-by-one", file=P,
         old="self._file_obj.seek(buff.size - chunk.size, 1)", new="self._file_obj.seek(buff.size - chunk.size + 1, 1)"),
    dict(prop="C01", name="pending-bytes-dropped-at-eof", file=P,
         old="if not len(temp_chunks) or self._terminator_added:", new="if True:"),
    dict(prop="C01", name="fastq-cut-mod-2", file=OLB,
         old="new_lines = new_lines[: n_lines - (n_lines % cls.n_lines_per_entry)]",
         new="new_lines = new_lines[: n_lines - (n_lines % 2)]"),
    dict(prop="C01", name="fastaml-cut-second-last", file=MLB,
         old="entry_starts = new_lines[new_entries]+1\n        cut_chunk = chunk[:entry_starts[-1]]\n        return cls(cut_chunk,\n                   new_lines[:new_entries[-1]],\n                   new_entries[:-1])",
         new="entry_starts = new_lines[new_entries]+1\n        last = -2 if len(new_entries) > 2 else -1\n        cut_chunk = chunk[:entry_starts[last]]\n        return cls(cut_chunk,\n                   new_lines[:new_entries[last]],\n                   new_entries[:last])"),
]
