"""Selection / observation programs over a lazily (or eagerly) read BAM file, shared by C04 and C05.

A case is {"fmt": "bam", "refs", "records", "text", "cuts", "program"}.  The file is produced by the independent encoder
(pbt/bamenc.py).  Program steps, all plain data:
    {"op": "slice"|"mask"|"ilist"|"perm", "src": k, ...}   NumPy-style selection of pool entry k (modulo pool size) -> new pool entry
    {"op": "concat", "srcs": [a, b]}                np.concatenate of two pool entries -> new pool entry
    {"op": "get", "src": k, "field": name}          read one field and compare it
    {"op": "rows", "src": k}                        read every field and compare
    {"op": "write", "src": k}                       write with bnp.open(path, "w") and compare the bytes
    {"op": "len", "src": k}
After the program every pool entry is read completely once more (so a write that damaged a shared buffer is seen).

BamBuffer declares supports_modified_write = False: only a selection of lazily read records has bytes to write.  Writing any other
table (eagerly read, concatenated) must raise; it is counted as the tolerant class 'bam-write-unsupported' and never accepted
if it silently writes something that does not decode to the model.
"""
import gzip
import os
import tempfile
import traceback

from hypothesis import strategies as st

from pbt import bamenc
from pbt.core import Failure
from pbt.props import c16

FIELDS = ["chromosome", "name", "flag", "position", "mapq", "cigar_op", "cigar_length", "sequence", "quality"]


def field_values(t, name):
    import numpy as np
    col = getattr(t, name)
    if name in ("flag", "position", "mapq"):
        return np.asarray(col).tolist()
    if name == "cigar_length":
        return [list(map(int, r)) for r in col.tolist()]
    if name == "quality":
        return [list(map(int, r)) for r in (col.raw().tolist() if hasattr(col, "raw") else col.tolist())]
    return col.tolist()


def expected_field(recs, refs, name):
    return [c16.expected_row(r, refs)[name] for r in recs]


def field_equal(name, got, want, refs):
    if name != "chromosome":
        return got == want
    real = {n for n, _ in refs}
    return len(got) == len(want) and all((g == w) if w is not None else (g not in real) for g, w in zip(got, want))


def _where(e):
    tb = traceback.extract_tb(e.__traceback__)
    return next((f"{os.path.basename(fr.filename)}:{fr.name}" for fr in reversed(tb) if "/bionumpy/" in fr.filename), "?")


def resolve_index(op, n):
    import numpy as np
    kind = op["op"]
    if kind == "slice":
        sl = slice(op.get("start"), op.get("stop"), op.get("step"))
        return sl, sl
    if kind == "mask":
        bits = [bool(op["bits"][i % len(op["bits"])]) for i in range(n)] if op["bits"] else [False] * n
        return bits, np.array(bits, dtype=bool)
    if kind == "perm":
        # a selection as long as the table that is not the identity: reversal, rotation, swapped neighbours, or the interior
        # reversed with both end records kept in place (first lowest, last highest: the selection spans exactly the original bytes)
        k = op["seed"]
        if k % 4 == 0:
            idx = list(range(n))[::-1]
        elif k % 4 == 1:
            r = (1 + k // 4) % n if n else 0
            idx = list(range(r, n)) + list(range(r))
        elif k % 4 == 2:
            idx = [i + 1 if i % 2 == 0 and i + 1 < n else (i - 1 if i % 2 == 1 else i) for i in range(n)]
        else:
            idx = ([0] + list(range(n - 2, 0, -1)) + [n - 1]) if n >= 2 else list(range(n))
        return idx, np.array(idx, dtype=int)
    idx = [(i % (2 * n)) - n for i in op["idx"]] if n else []
    return idx, np.array(idx, dtype=int)


def apply_model_index(rows, pyidx):
    if isinstance(pyidx, slice):
        return rows[pyidx]
    if pyidx and isinstance(pyidx[0], bool):
        return [r for r, b in zip(rows, pyidx) if b]
    return [rows[i] for i in pyidx]


def short(v):
    s = repr(v)
    return s if len(s) < 300 else s[:300] + "..."


def run(case, lazy, prefix, stats=None, against_model=True):
    """Interpret the program.  Returns (failures, observations).  observations is a list of JSON-able records, one per observing step,
    used by C05 to compare the lazy and the eager run."""
    import numpy as np
    import bionumpy as bnp
    refs = [tuple(r) for r in case["refs"]]
    recs = [c16.norm(r) for r in case["records"]]
    header = bamenc.header_bytes(refs, case.get("text", ""))
    comp = bamenc.compress(bamenc.raw_bam(refs, recs, case.get("text", "")), case.get("cuts"))
    obs = []
    with tempfile.TemporaryDirectory(prefix="pbtbam", dir="/dev/shm" if os.path.isdir("/dev/shm") else None) as d:
        path = os.path.join(d, "x.bam")
        with open(path, "wb") as f:
            f.write(comp)
        try:
            t0 = bnp.open(path, lazy=lazy).read()
        except Exception as e:
            return [Failure(f"{prefix}:bam:read-raised:{type(e).__name__}:{_where(e)}", {"error": repr(e)[:300], "lazy": lazy})], obs
        reals = [t0]
        models = [list(range(len(recs)))]
        has_bytes = [bool(lazy)]       # a selection of the lazily read table still refers to the source bytes
        written = set()                # pool entries that have been written (their buffers may have been re-assembled)

        def observe_field(k, name, step):
            try:
                got = field_values(reals[k], name)
            except Exception as e:
                obs.append({"step": step, "what": f"get:{name}", "raised": type(e).__name__, "after_write": k in written})
                if len(models[k]) == 0:
                    if stats is not None:
                        stats.tolerant["bam-empty-selection-field-raises"] += 1
                    return None
                if k in written:
                    return Failure(f"{prefix}:bam:field-wrong-after-write", {"field": name, "error": repr(e)[:300], "table": k, "step": step, "lazy": lazy})
                return Failure(f"{prefix}:bam:field-raised:{name}:{type(e).__name__}:{_where(e)}", {"error": repr(e)[:300], "table": k, "step": step, "lazy": lazy})
            obs.append({"step": step, "what": f"get:{name}", "value": got, "after_write": k in written})
            if against_model:
                want = expected_field([recs[i] for i in models[k]], refs, name)
                if not field_equal(name, got, want, refs):
                    bad = next((i for i, (g, w) in enumerate(zip(got, want)) if g != w and not (name == "chromosome" and w is None)), None)
                    return Failure(f"{prefix}:bam:field-wrong-after-write" if k in written else f"{prefix}:bam:field-differs:{name}", {"field": name, "table": k, "step": step, "lazy": lazy, "row": bad, "rows_expected": len(want), "rows_actual": len(got),
                                                                        "expected": short(want[bad]) if bad is not None and bad < len(want) else None,
                                                                        "actual": short(got[bad]) if bad is not None and bad < len(got) else None})
            return None

        def observe_write(k, step):
            out = os.path.join(d, f"out{step}.bam")
            try:
                with bnp.open(out, "w") as f:
                    f.write(reals[k])
            except Exception as e:
                obs.append({"step": step, "what": "write", "raised": True})
                if not has_bytes[k]:
                    if stats is not None:
                        stats.tolerant["bam-write-unsupported"] += 1
                    return None
                return Failure(f"{prefix}:bam:write-raised:{type(e).__name__}:{_where(e)}", {"error": repr(e)[:300], "table": k, "step": step, "lazy": lazy})
            try:
                back = gzip.decompress(open(out, "rb").read())
            except Exception as e:
                return Failure(f"{prefix}:bam:written-file-not-gzip", {"error": repr(e)[:200], "table": k, "step": step})
            obs.append({"step": step, "what": "write", "bytes": back.hex()})
            written.add(k)
            want = header + b"".join(bamenc.record_bytes(recs[i]) for i in models[k])
            if against_model and back != want and not (len(models[k]) == 0 and back in (b"", header)):
                return Failure(f"{prefix}:bam:written-bytes", {"table": k, "step": step, "expected_size": len(want), "actual_size": len(back), "selection": models[k][:12], "lazy": lazy})
            return None

        step = -1
        try:
            for step, op in enumerate(case["program"]):
                kind = op["op"]
                if kind == "concat":
                    a, b = op["srcs"][0] % len(reals), op["srcs"][1] % len(reals)
                    reals.append(np.concatenate([reals[a], reals[b]]))
                    models.append(models[a] + models[b])
                    has_bytes.append(False)
                    continue
                k = op["src"] % len(reals)
                fail = None
                if kind == "get":
                    fail = observe_field(k, op["field"], step)
                elif kind == "rows":
                    for name in FIELDS:
                        fail = fail or observe_field(k, name, step)
                elif kind == "len":
                    n = len(reals[k])
                    obs.append({"step": step, "what": "len", "value": n})
                    if against_model and n != len(models[k]):
                        fail = Failure(f"{prefix}:bam:len", {"expected": len(models[k]), "actual": n, "table": k, "step": step})
                elif kind == "write":
                    fail = observe_write(k, step)
                else:
                    pyidx, npidx = resolve_index(op, len(models[k]))
                    reals.append(reals[k][npidx])
                    models.append(apply_model_index(models[k], pyidx))
                    has_bytes.append(has_bytes[k])
                if fail:
                    return [fail], obs
            # closing pass: every table is read completely
            for k in range(len(reals)):
                for name in FIELDS:
                    fail = observe_field(k, name, f"final:{k}")
                    if fail:
                        return [fail], obs
        except Exception as e:
            return [Failure(f"{prefix}:bam:program-raised:{type(e).__name__}:{_where(e)}", {"error": repr(e)[:300], "step": step, "lazy": lazy})], obs
    return [], obs


def check_c04(case, stats=None):
    fails, _ = run(case, lazy=True, prefix="C04", stats=stats)
    return fails[:1]


def check_c05(case, stats=None):
    """Differential: the same program on the lazily and on the eagerly read table; observations must agree step by step."""
    fl, ol = run(case, lazy=True, prefix="C05", stats=stats, against_model=False)
    fe, oe = run(case, lazy=False, prefix="C05", stats=stats, against_model=False)
    if bool(fl) != bool(fe):
        f = (fl or fe)[0]
        which = "lazy" if fl else "eager"
        if f.bucket == "C05:bam:field-wrong-after-write":
            return [f]
        return [Failure(f.bucket.replace("C05:bam:", f"C05:bam:only-{which}-fails:"), f.detail)]
    if fl:
        return []       # both fail at some step: allowed ("or fails in both")
    for a, b in zip(ol, oe):
        if a["what"] != b["what"] or a["step"] != b["step"]:
            return [Failure("C05:bam:observation-sequence-differs", {"lazy": short(a), "eager": short(b)})]
        if a["what"] == "write":
            # only the lazily read selection has bytes to write (supports_modified_write = False): compared when both wrote
            if "bytes" in a and "bytes" in b and a["bytes"] != b["bytes"]:
                return [Failure("C05:bam:written-bytes-differ", {"step": a["step"]})]
            continue
        if (("raised" in a) != ("raised" in b) or a.get("value") != b.get("value")) and a.get("after_write"):
            return [Failure("C05:bam:field-wrong-after-write", {"field": a["what"], "step": a["step"], "lazy": short(a), "eager": short(b)})]
        if ("raised" in a) != ("raised" in b):
            return [Failure(f"C05:bam:only-{'lazy' if 'raised' in a else 'eager'}-raises:{a['what']}", {"step": a["step"], "lazy": short(a), "eager": short(b)})]
        if a.get("value") != b.get("value"):
            return [Failure(f"C05:bam:values-differ:{a['what']}", {"step": a["step"], "lazy": short(a.get("value")), "eager": short(b.get("value"))})]
    return []


def classify(case):
    prog = case["program"]
    kinds = [op["op"] for op in prog]
    cl = ["bam"]
    sel = ("slice", "mask", "ilist", "perm")
    if "perm" in kinds:
        cl.append("bam-same-length-permutation")
    for i, k in enumerate(kinds):
        if k == "write" and any(x in sel for x in kinds[:i]):
            cl.append("bam-write-selection")
            if any(x in ("get", "rows") for x in kinds[i + 1:]):
                cl.append("bam-observe-after-write")
            if any(x == "get" for x in kinds[:i]):
                cl.append("bam-get-then-write")
    if "concat" in kinds:
        cl.append("bam-concat")
    if any(op["op"] == "ilist" and len(set(op["idx"])) < len(op["idx"]) for op in prog):
        cl.append("repeats")
    if any(op["op"] == "slice" and (op.get("step") or 1) < 0 for op in prog):
        cl.append("negative-step")
    keys = {(len(r["name"]), len(r["cigar"]), len(r["seq"]) % 2) for r in case["records"]}
    nontrivial = len(case["records"]) >= 2 and len(keys) >= 2 and len(prog) >= 2
    return nontrivial, sorted(set(cl))


def op_strategy():
    small = st.integers(-8, 8)
    sl = st.builds(lambda a, b, c: {"op": "slice", "src": 0, "start": a, "stop": b, "step": c},
                   st.one_of(st.none(), small), st.one_of(st.none(), small), st.one_of(st.none(), st.sampled_from([1, 2, 3, -1, -2])))
    mask = st.lists(st.booleans(), min_size=1, max_size=6).map(lambda b: {"op": "mask", "src": 0, "bits": [int(x) for x in b]})
    ilist = st.lists(st.integers(0, 30), min_size=0, max_size=6).map(lambda i: {"op": "ilist", "src": 0, "idx": i})
    concat = st.tuples(st.integers(0, 9), st.integers(0, 9)).map(lambda t: {"op": "concat", "srcs": list(t)})
    perm = st.integers(0, 23).map(lambda k: {"op": "perm", "src": 0, "seed": k})
    get = st.sampled_from(FIELDS).map(lambda f: {"op": "get", "src": 0, "field": f})
    obs = st.sampled_from([{"op": "write", "src": 0}, {"op": "write", "src": 0}, {"op": "rows", "src": 0}, {"op": "len", "src": 0}])
    base = st.one_of(sl, mask, ilist, ilist, perm, get, get, obs, obs, concat)

    def with_src(op, src):
        return dict(op, src=src) if "src" in op else op
    return st.builds(with_src, base, st.one_of(st.integers(0, 9), st.just(-1), st.just(-1)))


@st.composite
def bam_case(draw, max_records, max_steps, Lmax=30):
    n_refs = draw(st.integers(1, 3))
    refs = [[["chr1", "chr10", "chrM"][i], draw(st.integers(1, 2 ** 29))] for i in range(n_refs)]
    recs = draw(st.lists(c16.record(n_refs, Lmax), min_size=1, max_size=max_records))
    case = {"fmt": "bam", "refs": refs, "records": recs, "text": draw(st.sampled_from(["", "@HD\tVN:1.6\n"]))}
    if draw(st.booleans()):
        raw_len = len(bamenc.raw_bam([tuple(r) for r in refs], [c16.norm(r) for r in recs], case["text"]))
        case["cuts"] = draw(st.lists(st.integers(1, max(1, raw_len - 1)), min_size=1, max_size=3))
    case["program"] = draw(program_strategy(max_steps))
    return case


def program_strategy(max_steps):
    """A program is a sequence of phrases: single random steps, or short chains on the most recent table (src -1) of the shape
    select - read some fields - write - read other fields, which is where state kept per table (cached offsets, assembled buffers) can go stale."""
    op = op_strategy()
    sel = op.filter(lambda o: o["op"] in ("slice", "mask", "ilist", "perm"))
    get_last = st.sampled_from(FIELDS).map(lambda f: {"op": "get", "src": -1, "field": f})
    chain = st.builds(lambda s, before, after, tail: [s] + before + [{"op": "write", "src": -1}] + after + tail,
                      sel, st.lists(get_last, max_size=2), st.lists(get_last, max_size=2),
                      st.sampled_from([[], [{"op": "rows", "src": -1}], [{"op": "write", "src": -1}]]))
    phrase = st.one_of(op.map(lambda o: [o]), op.map(lambda o: [o]), chain)
    return st.lists(phrase, min_size=1, max_size=max_steps).map(lambda ph: [o for p_ in ph for o in p_][:max_steps + 4])
