"""Generators shared by the checks: deterministic small builders for enumerations and
Hypothesis strategies for the sampled remainder.  Everything returns JSON-able data."""
import string

from hypothesis import strategies as st

IDENT = string.ascii_letters + string.digits + "_.:|-"
NAMEISH = IDENT + "()[]=+*%$!?~^&;,'/"
DNA = "ACGT"
DNA_N = "ACGTN"
DNA_MIXED = "ACGTNacgtn"


def ident(min_size=1, max_size=12, alphabet=IDENT):
    if min_size > 200:
        # a very long field: a short generated text repeated to the length (Hypothesis does not draw texts of tens of thousands of characters)
        return st.text(alphabet=alphabet, min_size=3, max_size=9).map(lambda t: (t * (max_size // len(t) + 1))[:max_size])
    return st.text(alphabet=alphabet, min_size=min_size, max_size=max_size)


def first_field(min_size=1, max_size=12):
    """Identifier usable as first column: must not start with a comment marker."""
    return st.builds(lambda a, b: a + b,
                     st.sampled_from(string.ascii_letters + string.digits),
                     ident(max(0, min_size - 1), max_size - 1))


def uneven_widths(max_size):
    """Width strategy favouring 1 and very unequal widths in one column."""
    base = st.one_of(st.just(1), st.integers(1, 3), st.integers(1, max_size), st.just(max_size))
    if max_size >= 8:
        # now and then a field of 255..300 or 65536+ characters (one-byte and two-byte length limits)
        return st.one_of(*([base] * 24), st.sampled_from([255, 256, 257, 300]), st.sampled_from([65535, 65536, 65537]))
    return base


def digits(n, first_nonzero=True):
    if n <= 0:
        return st.just("")
    if first_nonzero:
        return st.builds(lambda a, b: a + b, st.sampled_from("123456789"),
                         st.text(alphabet=string.digits, min_size=n - 1, max_size=n - 1))
    return st.text(alphabet=string.digits, min_size=n, max_size=n)


def uint_text(max_digits=9, canonical=True):
    """Text of a non-negative integer."""
    base = st.one_of(st.just("0"), st.integers(1, max_digits).flatmap(digits), st.integers(1, max_digits).flatmap(digits))
    if max_digits >= 9:
        # values at and beyond the 32-bit limits, and up to 18 digits
        base = st.one_of(base, base, base, st.sampled_from(["2147483647", "2147483648", "4294967295", "4294967296", "9007199254740993"]),
                         st.integers(10, 18).flatmap(digits))
    if canonical:
        return base
    return st.one_of(base,
                     st.builds(lambda z, b: "0" * z + b, st.integers(1, 3), base),
                     st.builds(lambda b: "+" + b, base))


def int_text(max_digits=9, canonical=True):
    u = uint_text(max_digits, canonical=True)
    neg = st.builds(lambda b: "-" + b, st.integers(1, max_digits).flatmap(digits))
    if canonical:
        return st.one_of(u, neg)
    return st.one_of(u, neg, uint_text(max_digits, canonical=False),
                     st.builds(lambda z, b: "-" + "0" * z + b, st.integers(1, 2), st.integers(1, max_digits).flatmap(digits)))


def float_text(canonical=True):
    """Decimal or lower-case scientific float text, as found in bedGraph / narrowPeak."""
    mant = st.builds(lambda s, a, b: s + a + "." + b,
                     st.sampled_from(["", "", "-"]),
                     st.one_of(st.just("0"), st.integers(1, 6).flatmap(digits)),
                     st.text(alphabet=string.digits, min_size=1, max_size=6))
    plain_int = st.builds(lambda s, a: s + a, st.sampled_from(["", "-"]),
                          st.one_of(st.just("0"), st.integers(1, 6).flatmap(digits)))
    if canonical:
        # spellings that str(float(x)) reproduces: d.d without superfluous zeros
        return st.floats(min_value=-1e6, max_value=1e6, allow_nan=False, allow_infinity=False).map(
            lambda x: repr(round(x, 4))).filter(lambda s: "e" not in s)
    # more digits than a double holds (printf %.20f style): the value is still the nearest double of the text
    long_mant = st.builds(lambda s, a, b: s + a + "." + b,
                          st.sampled_from(["", "", "-"]),
                          st.one_of(st.just("0"), st.integers(1, 6).flatmap(digits)),
                          st.text(alphabet=string.digits, min_size=15, max_size=28))
    # no digit before, or none after, the decimal point ('.5', '-.25', '7.')
    bare = st.one_of(st.builds(lambda s, b: s + "." + b, st.sampled_from(["", "", "-"]), st.text(alphabet=string.digits, min_size=1, max_size=6)),
                     st.builds(lambda s, a: s + a + ".", st.sampled_from(["", "-"]), st.integers(1, 6).flatmap(digits)))
    mant = st.one_of(mant, mant, mant, bare)
    sci = st.builds(lambda m, s, e: m + "e" + s + str(e), st.one_of(mant, plain_int, mant, long_mant),
                    st.sampled_from(["", "-", "+"]), st.integers(0, 30))
    return st.one_of(mant, plain_int, sci, mant, long_mant)


def seq_text(min_size=0, max_size=40, alphabet=DNA):
    return st.text(alphabet=alphabet, min_size=min_size, max_size=max_size)


QUAL_CHARS = "".join(chr(c) for c in range(33, 127))


# ---------------------------------------------------------------------------------------
# records per format (text level)
# ---------------------------------------------------------------------------------------

def record_strategy(fmt, W=12, canonical=True, dot_score=False):
    w = uneven_widths(W)
    name = w.flatmap(lambda n: first_field(n, n))
    anyid = w.flatmap(lambda n: ident(n, n))
    pos = uint_text(9, canonical)
    strand = st.sampled_from(["+", "-", "."])
    score = st.just(".") if dot_score else int_text(6, canonical)
    if fmt == "bed3":
        return st.tuples(name, pos, pos).map(list)
    if fmt == "bed6":
        return st.tuples(name, pos, pos, anyid, score, strand).map(list)
    if fmt == "bed12":
        def build(chrom, s, e, nm, sc, sd, ts, te, rgb, blocks, trailing):
            sizes = ",".join(b[0] for b in blocks) + ("," if trailing else "")
            starts = ",".join(b[1] for b in blocks) + ("," if trailing else "")
            return [chrom, s, e, nm, sc, sd, ts, te, rgb, str(len(blocks)), sizes, starts]
        rgb = st.one_of(st.just("0"), st.tuples(st.integers(0, 255), st.integers(0, 255), st.integers(0, 255)).map(
            lambda t: ",".join(map(str, t))))
        blocks = st.lists(st.tuples(uint_text(6), uint_text(6)), min_size=1, max_size=5)
        return st.builds(build, name, pos, pos, anyid, score, strand, pos, pos, rgb, blocks, st.booleans())
    if fmt in ("bdg", "wig"):
        return st.tuples(name, pos, pos, float_text(canonical)).map(list)
    if fmt == "narrowpeak":
        summit = st.one_of(st.just("-1"), pos)
        return st.tuples(name, pos, pos, anyid, score, strand, float_text(canonical), float_text(canonical),
                         float_text(canonical), summit).map(list)
    if fmt == "chromsizes":
        return st.tuples(name, pos).map(list)
    if fmt in ("vcf", "vcfs"):
        posv = st.integers(1, 10 ** 9).map(str)
        alleles = st.integers(1, W).flatmap(lambda n: seq_text(n, n))
        alt = st.lists(alleles, min_size=1, max_size=3).map(",".join)
        qual = st.one_of(st.just("."), uint_text(3), float_text(False))
        filt = st.one_of(st.just("PASS"), st.just("."), ident(1, 6))
        info = st.one_of(st.just("."), st.lists(st.tuples(ident(1, 4, string.ascii_uppercase), ident(1, 6, string.ascii_letters + string.digits + ".")).map(
            lambda kv: kv[0] + "=" + kv[1]), min_size=1, max_size=3).map(";".join))
        return st.tuples(name, posv, st.one_of(st.just("."), anyid), alleles, alt, qual, filt, info).map(list)
    if fmt == "sam":
        cigar = st.one_of(st.just("*"), st.lists(st.tuples(st.integers(1, 200), st.sampled_from("MIDNSHP=X")).map(
            lambda t: f"{t[0]}{t[1]}"), min_size=1, max_size=4).map("".join))

        def build(qn, flag, rn, p, mq, cg, rnext, pn, tl, sq, tags):
            seq, qual = sq
            return [qn, flag, rn, p, mq, cg, rnext, pn, tl, seq, qual, "\t".join(tags)]
        seqqual = st.one_of(st.just(("*", "*")),
                            st.integers(1, W * 2).flatmap(lambda n: st.tuples(seq_text(n, n, DNA_N), st.text(alphabet=QUAL_CHARS, min_size=n, max_size=n))))
        tag = st.one_of(st.builds(lambda t, v: f"{t}:i:{v}", st.sampled_from(["NM", "AS", "XS"]), st.integers(0, 999)),
                        st.builds(lambda t, v: f"{t}:Z:{v}", st.sampled_from(["MD", "RG", "XA"]), ident(1, 8)))
        return st.builds(build, name, st.integers(0, 4095).map(str), st.one_of(st.just("*"), anyid),
                         uint_text(9), st.integers(0, 255).map(str), cigar, st.sampled_from(["*", "=", "chr2"]),
                         uint_text(9), int_text(5, canonical), seqqual, st.lists(tag, max_size=3))
    if fmt in ("gtf", "gff"):
        if fmt == "gtf":
            attr = st.lists(st.tuples(st.sampled_from(["gene_id", "transcript_id", "exon_id", "gene_name"]), ident(1, 10)).map(
                lambda kv: f'{kv[0]} "{kv[1]}";'), min_size=1, max_size=3).map(" ".join)
        else:
            attr = st.lists(st.tuples(st.sampled_from(["ID", "Parent", "Name", "gene_id"]), ident(1, 10)).map(
                lambda kv: f"{kv[0]}={kv[1]}"), min_size=1, max_size=3).map(";".join)
        return st.tuples(name, anyid, st.sampled_from(["gene", "transcript", "exon", "CDS"]), pos, pos,
                         st.one_of(st.just("."), float_text(False)), strand, st.sampled_from([".", "0", "1", "2"]), attr).map(list)
    if fmt == "gfa":
        return st.tuples(anyid, st.integers(1, W * 3).flatmap(lambda n: seq_text(n, n))).map(list)
    if fmt == "pairs":
        return st.tuples(anyid, anyid, uint_text(9), anyid, uint_text(9), st.sampled_from("+-"), st.sampled_from("+-")).map(list)
    if fmt == "fasta2":
        desc = st.one_of(st.just(""), ident(1, 8, NAMEISH + " >@").map(lambda s: " " + s))
        return st.tuples(st.tuples(anyid, desc).map("".join), st.one_of(st.just(""), seq_text(0, W * 4), seq_text(1, 3))).map(list)
    if fmt == "fastaml":
        desc = st.one_of(st.just(""), ident(1, 8, NAMEISH + " >@").map(lambda s: " " + s))
        return st.tuples(st.tuples(anyid, desc).map("".join), st.one_of(seq_text(1, W * 4), seq_text(1, 3))).map(list)
    if fmt == "fastq":
        def build(nm, n, plus_name, data):
            seq = data.draw(seq_text(n, n, DNA_N))
            qual = data.draw(st.text(alphabet=QUAL_CHARS, min_size=n, max_size=n))
            return [nm, seq, qual, nm if plus_name else ""]
        return st.builds(lambda nm, sq, plus: [nm, sq[0], sq[1], nm if plus else ""], anyid,
                         st.integers(1, W * 3).flatmap(lambda n: st.tuples(seq_text(n, n, DNA_N), st.text(alphabet=QUAL_CHARS, min_size=n, max_size=n))),
                         st.booleans())
    raise ValueError(fmt)


VCF_HEADER = ["##fileformat=VCFv4.2", "##source=pbt",
              "#CHROM\tPOS\tID\tREF\tALT\tQUAL\tFILTER\tINFO"]
SAM_HEADER = ["@HD\tVN:1.6\tSO:unsorted", "@SQ\tSN:chr1\tLN:1000000", "@SQ\tSN:chr2\tLN:500"]


def default_header(fmt):
    if fmt in ("vcf", "vcfs"):
        return list(VCF_HEADER)
    if fmt == "sam":
        return list(SAM_HEADER)
    return []


def header_strategy(fmt):
    if fmt in ("vcf", "vcfs"):
        return st.sampled_from([VCF_HEADER, VCF_HEADER[:1] + VCF_HEADER[2:], VCF_HEADER[2:]]).map(list)
    if fmt == "sam":
        return st.sampled_from([SAM_HEADER, SAM_HEADER[:1], []]).map(list)
    if fmt in ("bed3", "bed6", "bdg", "narrowpeak", "gtf", "gff", "chromsizes", "pairs", "bed12", "wig"):
        return st.sampled_from([[], ["#comment line"], ["# a", "#b\tc"]]).map(list)
    return st.just([])


def file_case(fmt, min_records=1, max_records=8, W=12, canonical=True, crlf=None, final_nl=None):
    """Hypothesis strategy for a file case of one format."""
    @st.composite
    def build(draw):
        dot = draw(st.booleans()) if fmt in ("bed6", "bed12", "narrowpeak") else False
        recs = draw(st.lists(record_strategy(fmt, W, canonical, dot_score=dot), min_size=min_records, max_size=max_records))
        case = {"fmt": fmt, "records": recs,
                "crlf": draw(st.booleans()) if crlf is None else crlf,
                "final_nl": draw(st.booleans()) if final_nl is None else final_nl,
                "header": draw(header_strategy(fmt))}
        if fmt == "fastaml":
            case["wrap"] = draw(st.one_of(st.integers(1, 12), st.just(80), st.integers(1, 80)))
        return case
    return build()


# ---------------------------------------------------------------------------------------
# deterministic small records for the exhaustive cores
# ---------------------------------------------------------------------------------------

_LET = "abcdefghijklmnopqrstuvwxyz"


def small_record(fmt, width, idx):
    """Record number idx whose variable fields all have `width` characters; distinct for distinct idx."""
    ch = _LET[idx % 26]
    word = (ch + _LET[(idx * 7 + 3) % 26] * (width - 1))[:width]
    num = (str(idx % 9 + 1) + str((idx * 3 + 1) % 10) * (width - 1))[:width]
    seq = ("ACGT"[idx % 4] + "ACGT"[(idx + 1) % 4] * (width - 1))[:width]
    qual = ("!5I~"[idx % 4] + "@+#"[(idx) % 3] * (width - 1))[:width]
    if fmt == "bed3":
        return [word, num, num]
    if fmt == "bed6":
        return [word, num, num, word, num, "+-."[idx % 3]]
    if fmt == "bdg":
        return [word, num, num, num + ".5"]
    if fmt == "narrowpeak":
        return [word, num, num, word, num, "+-."[idx % 3], num + ".5", "1.25", num + ".0", num]
    if fmt == "vcf":
        return [word, num, word, seq, seq, ".", "PASS", "K=" + word]
    if fmt == "sam":
        return [word, "0", word, num, "60", f"{width}M", "*", "0", "0", seq, qual] + (["NM:i:" + num] if idx % 2 else [""])
    if fmt == "gtf":
        return [word, "src", "exon", num, num, ".", "+-"[idx % 2], ".", f'gene_id "{word}";']
    if fmt in ("fasta2", "fastaml"):
        return [word, seq]
    if fmt == "fastq":
        return [word, seq, qual, word if idx % 2 else ""]
    raise ValueError(fmt)


# ---------------------------------------------------------------------------------------
# VCF with typed INFO and genotype columns
# ---------------------------------------------------------------------------------------

_INFO_IDS = ["DP", "DP2", "AF", "AFX", "DB", "D", "AN", "NS", "STR", "H2", "MQRankSum", "A"]
def related_info_decl(draw, decl):
    """The same INFO keys and types in the same order, with the Number of some keys changed between scalar and list."""
    out = []
    for key, number, typ in decl:
        if typ != "Flag" and draw(st.booleans()):
            scalar = number.isdigit() and int(number) <= 1
            number = draw(st.sampled_from(["A", ".", "2"])) if scalar else "1"
        out.append([key, number, typ])
    return out


_INFO_KINDS = [("1", "Integer"), ("A", "Integer"), (".", "Integer"), ("2", "Integer"),
               ("1", "Float"), ("A", "Float"), (".", "Float"),
               ("0", "Flag"), ("1", "String"), (".", "String")]


def _info_value(number, typ):
    is_list = not (number.isdigit() and int(number) <= 1)
    if typ == "Integer":
        one = int_text(5)
    elif typ == "Float":
        one = float_text(False)
    else:
        return ident(1, 8, string.ascii_letters + string.digits + "_.")
    if is_list:
        n = int(number) if number.isdigit() else None
        return st.lists(one, min_size=n or 1, max_size=n or 3).map(",".join)
    return one


@st.composite
def vcf_case(draw, fmt="vcf", max_records=8, typed=None, decl=None):
    typed = (draw(st.booleans()) if typed is None else typed) or decl is not None
    if decl is not None:
        decl = [list(d) for d in decl]
    elif typed:
        ids = draw(st.lists(st.sampled_from(_INFO_IDS), min_size=1, max_size=5, unique=True))
        decl = [[i] + list(draw(st.sampled_from(_INFO_KINDS))) for i in ids]
    else:
        decl = []
    geno = fmt in ("vcf2", "vcfm", "vcfpm", "vcfph")
    n_samples = draw(st.integers(1, 4)) if geno else 0
    samples = [draw(ident(1, 8)) for _ in range(n_samples)]
    header = ["##fileformat=VCFv4.2"]
    for key, number, typ in decl:
        header.append(f'##INFO=<ID={key},Number={number},Type={typ},Description="desc of {key}, x">')
    if draw(st.booleans()):
        header.append("##contig=<ID=chr1,length=1000>")
    cols = "#CHROM\tPOS\tID\tREF\tALT\tQUAL\tFILTER\tINFO"
    if geno:
        cols += "\tFORMAT\t" + "\t".join(samples)
    header.append(cols)
    if fmt == "vcfpm":
        gts = st.sampled_from(["0|0", "0|1", "1|0", "1|1"])
    elif fmt == "vcfph":
        gts = st.builds(lambda a, b: f"{a}|{b}", st.sampled_from("01234."), st.sampled_from("01234."))
    else:
        gts = st.builds(lambda a, s, b: a + s + b, st.sampled_from("012."), st.sampled_from("|/"), st.sampled_from("012."))
    base = record_strategy("vcf", 10)
    recs = []
    for _ in range(draw(st.integers(1, max_records))):
        rec = draw(base)
        if typed:
            keys = draw(st.lists(st.sampled_from(decl), max_size=len(decl), unique_by=lambda d: d[0]))
            items = []
            for key, number, typ in keys:
                items.append(key if typ == "Flag" else key + "=" + draw(_info_value(number, typ)))
            if draw(st.integers(0, 5)) == 0:
                items.insert(draw(st.integers(0, len(items))), "ZZ=" + draw(ident(1, 3)))
            rec[7] = ";".join(items) if items else "."
        if geno:
            extra = draw(st.booleans())
            rec.append("GT:DP" if extra else "GT")
            for _s in samples:
                g = draw(gts)
                # a sample may drop its trailing FORMAT sub-fields (the specification allows it): 'GT:DP' declared, './.' given
                keep_sub = extra and draw(st.integers(0, 3)) != 0
                rec.append(g + (":" + str(draw(st.one_of(st.integers(0, 99), st.integers(0, 10 ** 9)))) if keep_sub else ""))
        recs.append(rec)
    case = {"fmt": fmt, "records": recs, "crlf": draw(st.booleans()), "final_nl": draw(st.booleans()),
            "header": header}
    if typed:
        case["info_decl"] = decl
    return case
