"""Sensitivity harness (development tool, not a registered check).

    python -m pbt.mutation_check [--prop C01] [--only name] [--tier quick]

For each mutant in pbt/mutants.py: copy /repo/bionumpy to a scratch directory outside /repo and /verif,
apply the textual change, run the property's check with VERIF_REPO pointing at the copy, expect exit 1
with a VIOLATION line, delete the copy.  Prints one line per mutant and a summary.
"""
import argparse
import os
import shutil
import subprocess
import sys
import tempfile
import time

VERIF_DIR = os.path.dirname(os.path.dirname(os.path.abspath(__file__)))
sys.path.insert(0, VERIF_DIR)


def apply(root, mutant):
    edits = mutant.get("edits") or [(mutant["file"], mutant["old"], mutant["new"])]
    for file, old, new in edits:
        path = os.path.join(root, file)
        with open(path) as f:
            s = f.read()
        if s.count(old) < 1:
            raise RuntimeError(f"mutant {mutant['name']}: pattern not found in {file}")
        s = s.replace(old, new, 1)
        with open(path, "w") as f:
            f.write(s)


def run_one(mutant, tier, budget, keep_evidence_dir):
    scratch = tempfile.mkdtemp(prefix="pbtmut_", dir="/dev/shm" if os.path.isdir("/dev/shm") else None)
    try:
        shutil.copytree("/repo/bionumpy", os.path.join(scratch, "bionumpy"),
                        ignore=shutil.ignore_patterns("__pycache__"))
        apply(scratch, mutant)
        env = dict(os.environ, VERIF_REPO=scratch, VERIF_EVIDENCE_DIR=os.path.join(scratch, "evidence"), PYTHONHASHSEED="0", PYTHONDONTWRITEBYTECODE="1")
        t0 = time.time()
        cmd = ["/venv/bin/python", "-m", "pbt.run", mutant["prop"], "--tier", tier]
        if budget:
            cmd += ["--budget", str(budget)]
        p = subprocess.run(cmd, cwd=VERIF_DIR, env=env, capture_output=True, text=True)
        wall = time.time() - t0
        viol = [l for l in p.stdout.splitlines() if l.startswith("VIOLATION")]
        buckets = [l.strip() for l in p.stdout.splitlines() if l.strip().startswith("bucket=")]
        return p.returncode, viol, buckets, wall, p.stdout[-1500:] + p.stderr[-1500:]
    finally:
        shutil.rmtree(scratch, ignore_errors=True)


def main():
    from pbt.mutants import MUTANTS
    ap = argparse.ArgumentParser()
    ap.add_argument("--prop")
    ap.add_argument("--only")
    ap.add_argument("--tier", default="quick")
    ap.add_argument("--budget", type=float, default=None)
    ap.add_argument("-v", action="store_true")
    ap.add_argument("--out", help="write one JSON record per mutant to this file")
    args = ap.parse_args()
    sel = [m for m in MUTANTS if (not args.prop or m["prop"] == args.prop.upper()) and (not args.only or args.only in m["name"])]
    killed = 0
    results = []
    for m in sel:
        try:
            rc, viol, buckets, wall, tail = run_one(m, args.tier, args.budget, None)
        except RuntimeError as e:      # the pattern is gone from the current tree: the mutant needs rewriting, the others still run
            results.append({"prop": m["prop"], "name": m["name"], "killed": False, "stale": True, "error": str(e)})
            print(f"STALE    {m['prop']} {m['name']}: {e}", flush=True)
            continue
        ok = rc == 1 and viol
        killed += bool(ok)
        results.append({"prop": m["prop"], "name": m["name"], "killed": bool(ok), "exit": rc, "wall_s": round(wall, 1),
                        "first_bucket": buckets[0].split(" ")[0][len("bucket="):] if buckets else None})
        print(f"{'KILLED ' if ok else 'SURVIVED'} {m['prop']} {m['name']:<40} rc={rc} {wall:5.0f}s  {buckets[0][:150] if buckets else ''}", flush=True)
        if args.v or not ok:
            print(tail)
    if args.out:
        import json
        with open(args.out, "w") as f:
            json.dump(results, f, indent=1)
    print(f"{killed}/{len(sel)} mutants killed")
    return 0 if killed == len(sel) else 1


if __name__ == "__main__":
    sys.exit(main())
