"""Independent BAM encoder written from the SAM/BAM specification (section 4.2), using only struct and gzip.

A record is a dict: ref (index or -1), pos, name, flag, mapq, cigar [(op, length), ...], seq (text over '=ACMGRSVTWYHKDBN'),
qual (list of ints, or None for 0xFF throughout), tags (raw bytes), next_ref, next_pos, tlen.
"""
import gzip
import struct

SEQ_CODE = "=ACMGRSVTWYHKDBN"
CIGAR_OPS = "MIDNSHP=X"


def reg2bin(beg, end):
    end -= 1
    if beg >> 14 == end >> 14:
        return ((1 << 15) - 1) // 7 + (beg >> 14)
    if beg >> 17 == end >> 17:
        return ((1 << 12) - 1) // 7 + (beg >> 17)
    if beg >> 20 == end >> 20:
        return ((1 << 9) - 1) // 7 + (beg >> 20)
    if beg >> 23 == end >> 23:
        return ((1 << 6) - 1) // 7 + (beg >> 23)
    if beg >> 26 == end >> 26:
        return ((1 << 3) - 1) // 7 + (beg >> 26)
    return 0


def header_bytes(refs, text=""):
    out = [b"BAM\x01", struct.pack("<i", len(text)), text.encode("ascii"), struct.pack("<i", len(refs))]
    for name, length in refs:
        nb = name.encode("ascii") + b"\x00"
        out.append(struct.pack("<i", len(nb)) + nb + struct.pack("<i", length))
    return b"".join(out)


def ref_consumed(cigar):
    return sum(n for op, n in cigar if op in "MDN=X")


def record_bytes(rec):
    name = rec["name"].encode("ascii") + b"\x00"
    cigar = b"".join(struct.pack("<I", (n << 4) | CIGAR_OPS.index(op)) for op, n in rec["cigar"])
    seq = rec["seq"]
    codes = [SEQ_CODE.index(c) for c in seq]
    if len(codes) % 2:
        codes.append(0)
    packed = bytes((codes[i] << 4) | codes[i + 1] for i in range(0, len(codes), 2))
    qual = bytes(rec["qual"]) if rec.get("qual") is not None else b"\xff" * len(seq)
    assert len(qual) == len(seq)
    end = rec["pos"] + max(ref_consumed(rec["cigar"]), 1)
    body = struct.pack("<iiBBHHHiiii", rec["ref"], rec["pos"], len(name), rec["mapq"], reg2bin(max(rec["pos"], 0), max(end, 1)),
                       len(rec["cigar"]), rec["flag"], len(seq), rec.get("next_ref", -1), rec.get("next_pos", -1), rec.get("tlen", 0))
    body += name + cigar + packed + qual + bytes(rec.get("tags", b""))
    return struct.pack("<i", len(body)) + body


def raw_bam(refs, records, text=""):
    return header_bytes(refs, text) + b"".join(record_bytes(r) for r in records)


def compress(raw, cuts=None):
    """One gzip member, or several concatenated members cut at the given offsets (BGZF-style multi-member stream)."""
    if not cuts:
        return gzip.compress(raw, mtime=0)
    pts = [0] + sorted(set(c for c in cuts if 0 < c < len(raw))) + [len(raw)]
    return b"".join(gzip.compress(raw[a:b], mtime=0) for a, b in zip(pts[:-1], pts[1:]))
