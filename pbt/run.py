"""Entry point:  python -m pbt.run <ID> --tier quick|thorough [--replay FILE]

Exit codes: 0 held on everything explored; 1 violation (prints VIOLATION property=<id> replay=<path>);
2 harness error (never prints a VIOLATION line).
"""
import argparse
import importlib
import json
import os
import sys
import time
import traceback
import warnings

warnings.filterwarnings("ignore")

VERIF_DIR = os.path.dirname(os.path.dirname(os.path.abspath(__file__)))
if os.environ.get("VERIF_REPO"):
    sys.path.insert(0, os.environ["VERIF_REPO"])
if VERIF_DIR not in sys.path:
    sys.path.insert(0, VERIF_DIR)

import logging  # noqa
logging.disable(logging.CRITICAL)


def _replays_alone(prop_id, path):
    import subprocess
    p = subprocess.run([sys.executable, "-m", "pbt.run", prop_id, "--replay", path], cwd=VERIF_DIR, capture_output=True, text=True,
                       env=dict(os.environ, PYTHONHASHSEED="0"))
    return p.returncode == 1


def _first_reproducing_alternate(prop_id, bucket, rec, seed):
    """Replay the bucket's other recorded failing cases, each in a fresh process (8 at a time, smallest first); return the first that fails alone."""
    from concurrent.futures import ThreadPoolExecutor
    from pbt import core
    alts = sorted((a for a in rec.get("alts", []) if a["case"] != rec["case"]), key=lambda a: a["size"])
    if not alts:
        return None
    d = os.path.join(VERIF_DIR, "replays", prop_id)
    paths = []
    for i, a in enumerate(alts):
        pth = os.path.join(d, core._safe(bucket) + f".alt{i}.json")
        with open(pth, "w") as f:
            json.dump({"property": prop_id, "bucket": bucket, "seed": seed, "case": a["case"], "detail": a["detail"]}, f, default=str)
        paths.append(pth)
    try:
        with ThreadPoolExecutor(8) as ex:
            results = list(ex.map(lambda pth: _replays_alone(prop_id, pth), paths))
    finally:
        for pth in paths:
            try:
                os.remove(pth)
            except OSError:
                pass
    for a, ok in zip(alts, results):
        if ok:
            return a
    return None


def main(argv=None):
    ap = argparse.ArgumentParser()
    ap.add_argument("prop")
    ap.add_argument("--tier", default=os.environ.get("VERIF_TIER", "quick"), choices=["quick", "thorough"])
    ap.add_argument("--replay")
    ap.add_argument("--budget", type=float, default=None, help="wall-clock ceiling in seconds")
    args = ap.parse_args(argv)
    seed = int(os.environ.get("VERIF_SEED", "1") or 1)
    prop_id = args.prop.upper()

    from pbt import core
    try:
        import bionumpy
        bionumpy_file = bionumpy.__file__
        mod_name = f"pbt.props.{prop_id.lower()}"
        mod = importlib.import_module(mod_name)
    except Exception:
        traceback.print_exc()
        print(f"HARNESS-ERROR property={prop_id} import failed")
        return 2

    known_open = core.open_buckets(prop_id)

    if args.replay:
        with open(args.replay) as f:
            rep = json.load(f)
        case = rep["case"]
        stats = core.Stats()
        failures = core.run_case(mod, case, stats, set(known_open))
        if stats.timeouts:
            print("replay: case timed out (inconclusive)")
            return 2
        bad = [f for f in failures if f.bucket not in known_open]
        for f in failures:
            print(("KNOWN-FINDING" if f.bucket in known_open else "FAIL"), f.bucket, json.dumps(core.jsonable(f.detail))[:2000])
        if bad:
            print(f"VIOLATION property={prop_id} replay={args.replay}")
            return 1
        print("replay: no violation")
        return 0

    t0 = time.time()
    budget = args.budget or getattr(mod, "BUDGET_S", {"quick": 240, "thorough": 1500})[args.tier]
    total = core.Stats()
    # stage 0: committed regression seeds (fixed findings, boundary cases)
    reg_dir = os.path.join(VERIF_DIR, "replays", prop_id, "regress")
    n_reg = 0
    if os.path.isdir(reg_dir):
        for name in sorted(os.listdir(reg_dir)):
            if name.endswith(".json"):
                with open(os.path.join(reg_dir, name)) as f:
                    rep = json.load(f)
                core.run_case(mod, rep["case"], total, set(known_open))
                n_reg += 1
    total.extra["regression_seeds_replayed"] = n_reg
    try:
        tasks = mod.tasks(args.tier, seed)
        total.merge(core.run_tasks(mod_name, tasks, budget))
    except Exception:
        traceback.print_exc()
        print(f"HARNESS-ERROR property={prop_id}")
        return 2
    wall = time.time() - t0

    # vacuity guard: every declared class must have been reached
    missing = [c for c in getattr(mod, "REQUIRED_CLASSES", []) if total.classes.get(c, 0) == 0]
    n_viol = len(total.failures)
    core.write_evidence(mod, total, args.tier, seed, wall, bionumpy_file, n_viol)

    print(f"{prop_id} tier={args.tier} seed={seed} evaluations={total.evaluations} "
          f"distinct_nontrivial={len(total.nontrivial)} wall={wall:.1f}s "
          f"budget_exhausted={total.budget_exhausted} timeouts={len(total.timeouts)}")
    for b, rec in sorted(total.known.items()):
        what = known_open[b].get("what", b)
        print(f"KNOWN-FINDING: property={prop_id} {what} [bucket {b}, {rec['count']} cases]")
    if total.harness_errors:
        for e in total.harness_errors[:5]:
            print("HARNESS-ERROR", e)
        if not total.failures:
            return 2
    rc = 0
    # A failure is only reported once its replay file reproduces it in a fresh process: a failure that depends on
    # state left behind by earlier cases in the same worker has no usable reproduction and is listed as UNREPRODUCED.
    confirmed, unreproduced, unchecked = [], [], []
    for b, rec in sorted(total.failures.items(), key=lambda kv: kv[1]["size"]):
        path = core.write_replay(prop_id, b, rec, seed)
        if len(confirmed) >= 3 or len(confirmed) + len(unreproduced) >= 10:
            unchecked.append((b, rec, path))
            continue
        if _replays_alone(prop_id, path):
            confirmed.append((b, rec, path))
            continue
        # the smallest failing case may only fail after other cases ran in the same process; try the other recorded cases of the bucket
        alt = _first_reproducing_alternate(prop_id, b, rec, seed)
        if alt is not None:
            rec = dict(rec, case=alt["case"], detail=alt["detail"], size=alt["size"])
            path = core.write_replay(prop_id, b, rec, seed)
            confirmed.append((b, rec, path))
        else:
            unreproduced.append((b, rec, path))
    if confirmed:
        for b, rec, path in confirmed + unchecked:
            print(f"VIOLATION property={prop_id} replay={path}")
            print(f"  bucket={b} count={rec['count']} detail={json.dumps(rec['detail'])[:1500]}")
        rc = 1
    for b, rec, path in unreproduced + ([] if confirmed else unchecked):
        print(f"UNREPRODUCED: bucket={b} count={rec['count']} failed inside the run but its replay ({path}) passes in a fresh process; "
              f"not reported as a violation. detail={json.dumps(rec['detail'])[:600]}")
    if unreproduced:
        ev_path = os.path.join(core.evidence_dir(), prop_id + ".json")
        with open(ev_path) as f:
            ev = json.load(f)
        ev["coverage"]["unreproduced_failures"] = {b: rec["count"] for b, rec, _ in unreproduced}
        ev["violations"] = len(confirmed) + (len(unchecked) if confirmed else 0)
        with open(ev_path, "w") as f:
            json.dump(ev, f, indent=1, default=str)
            f.write("\n")
    if rc == 0 and missing and not total.budget_exhausted:
        print(f"HARNESS-ERROR property={prop_id} declared classes never generated: {missing}")
        return 2
    if rc == 0 and total.evaluations == 0:
        print(f"HARNESS-ERROR property={prop_id} nothing was evaluated")
        return 2
    return rc


if __name__ == "__main__":
    sys.exit(main())
