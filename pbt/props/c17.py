"""C17  Indexed FASTA random access agrees with the file."""
import itertools
import os
import tempfile
import traceback

from hypothesis import strategies as st

from pbt import core
from pbt.core import Failure

ID = "C17"
RULE = ("FASTA files with 1..N records of length 1..L, each wrapped at its own width 1..W (last line short or full, single-line records, names "
        "with descriptions, final newline present or absent), written to a temporary directory. Exhaustive core: N <= 2 (3 thorough), L <= 7, "
        "W <= 8 and every interval [a, b) with 0 <= a < b <= length of every record; Hypothesis for L up to 400 and W up to 120 with intervals "
        "biased to start or end on, just before and just after a line break. Both index sources: created by the library (open_indexed with no "
        ".fai present) and supplied faidx-style by the model. One file of more than five million bytes (thorough) reaches the cross-chunk "
        "offset accumulation of create_index. Oracle: the model records. The written .fai lists name (first token), true length, byte offset "
        "of the first base, bases per line and bytes per line; get_contig_lengths() gives the true lengths; idx[name] the full sequence; "
        "get_interval_sequences gives exactly seq[a:b] through the per-interval path and through the string-encoded fast path with the "
        "encoding's label order different from the file order. "
        "Non-trivial: a record spanning >= 2 lines whose length differs from the line width, and an interval crossing a line break.")
ASSUMPTIONS = [
    "Line ends are LF. Bytes-per-line of a record's index entry is only compared when the record's first line is terminated by a newline.",
    "Every record is internally consistently wrapped (all lines but the last have the record's width), as faidx requires.",
]
REQUIRED_CLASSES = ["multi-line", "last-line-full", "last-line-short", "single-line", "description", "marker-character-in-description", "genome-route-3+-intervals", "supplied-index-without-final-newline", "interval-crosses-break", "interval-ends-at-break",
                    "interval-starts-at-break", "supplied-index", "library-index", "fast-path-label-order-differs", "no-final-newline", "index-written-by-genome-with-underscore-names", "another-file-opened-at-the-same-path-first", "crlf-line-ends"]
BOUNDS = {"quick": "exhaustive: 1 record L<=7 W<=8 and 2 records L<=4 W<=5, every interval; 450 sampled files; one 5.6 MB file (2 read chunks of create_index) and one 16 MB file (4 read chunks)",
          "thorough": "exhaustive: N<=2 L<=7 W<=8 and N=3 L<=4 W<=4; 2500 sampled files; one 5.2 MB file"}
BUDGET_S = {"quick": 200, "thorough": 1500}


def _where(e):
    tb = traceback.extract_tb(e.__traceback__)
    return next((f"{os.path.basename(fr.filename)}:{fr.name}" for fr in reversed(tb) if "/bionumpy/" in fr.filename), "?")


def layout(case):
    """file bytes and the model index: name, rlen, offset, lenc, lenb per record"""
    out = []
    idx = []
    pos = 0
    n = len(case["records"])
    e = "\r\n" if case.get("crlf") else "\n"
    for i, (name, desc, seq, w) in enumerate(case["records"]):
        hdr = ">" + name + (" " + desc if desc else "") + e
        lines = [seq[j:j + w] for j in range(0, len(seq), w)]
        body = e.join(lines) + e
        if i == n - 1 and not case.get("final_nl", True):
            body = body[:-len(e)]
        first_terminated = len(lines) > 1 or body.endswith("\n")
        idx.append({"name": name, "rlen": len(seq), "offset": pos + len(hdr), "lenc": len(lines[0]), "lenb": len(lines[0]) + len(e),
                    "first_line_terminated": first_terminated})
        out.append(hdr + body)
        pos += len(hdr) + len(body)
    return "".join(out).encode(), idx


def classify(case):
    cl = [case["index"] + "-index"]
    nontrivial = False
    if case["index"] == "supplied" and case.get("fai_no_final_newline"):
        cl.append("supplied-index-without-final-newline")
    if case.get("prior_at_same_path") and case["index"] != "library":
        cl.append("another-file-opened-at-the-same-path-first")
    if case["index"] == "library-via-genome" and any("_" in r[0] for r in case["records"]):
        cl.append("index-written-by-genome-with-underscore-names")
    if case.get("crlf"):
        cl.append("crlf-line-ends")
    if case.get("genome_route") and len(case.get("intervals") or []) >= 3:
        cl.append("genome-route-3+-intervals")
    for name, desc, seq, w in case["records"]:
        if len(seq) > w:
            cl.append("multi-line")
            cl.append("last-line-full" if len(seq) % w == 0 else "last-line-short")
        else:
            cl.append("single-line")
        if desc:
            cl.append("description")
            if ">" in desc:
                cl.append("marker-character-in-description")
    for ri, a, b in case["intervals"]:
        name, desc, seq, w = case["records"][ri]
        if a // w != (b - 1) // w:
            cl.append("interval-crosses-break")
            if len(seq) > w and len(seq) != w:
                nontrivial = True
        if b % w == 0:
            cl.append("interval-ends-at-break")
        if a % w == 0 and a > 0:
            cl.append("interval-starts-at-break")
    if not case.get("final_nl", True):
        cl.append("no-final-newline")
    if case.get("label_order"):
        cl.append("fast-path-label-order-differs")
    return nontrivial, sorted(set(cl))


def check(case, stats=None):
    import numpy as np
    import bionumpy as bnp
    from bionumpy.datatypes import Interval
    from bionumpy.encodings.string_encodings import StringEncoding
    data, model = layout(case)
    recs = case["records"]
    out = []
    with tempfile.TemporaryDirectory(prefix="pbtc17") as d:
        path = os.path.join(d, "g.fa")
        if case.get("prior_at_same_path"):
            # another FASTA (other lengths, other line widths) with its index lives at this very path first and is opened and read; then the file
            # and its index are replaced: what the first opening left behind in the process must not serve the second
            prior = {"records": [[nm, "", (sq[::-1] + "ACGTA")[:len(sq) + 3], w_ + 1] for nm, _, sq, w_ in recs], "final_nl": True}
            pdata, pmodel = layout(prior)
            with open(path, "wb") as f:
                f.write(pdata)
            with open(path + ".fai", "w") as f:
                f.write("".join(f"{m['name']}\t{m['rlen']}\t{m['offset']}\t{m['lenc']}\t{m['lenb']}\n" for m in pmodel))
            try:
                fa0 = bnp.open_indexed(path)
                got0 = fa0[prior["records"][0][0]].to_string()
                fa0._f_obj.close()
                if case.get("genome_route") and all("_" not in r_[0] for r_ in recs):
                    # ... and is read through the genome object as well, as the file that replaces it will be
                    p0 = prior["records"][0]
                    gseq0 = bnp.Genome.from_file(path).read_sequence()
                    g0 = gseq0.extract_intervals(Interval([p0[0]], np.array([0]), np.array([len(p0[2])]))).tolist()[0].upper()
                    if g0 != p0[2].upper():
                        return [Failure("C17:interval-sequences:genome-route", {"in_prior_file": True, "expected": p0[2][:80], "actual": g0[:80]})]
            except Exception as e:
                return [Failure(f"C17:raised:prior-file:{type(e).__name__}:{_where(e)}", {"error": repr(e)[:300]})]
            if got0 != prior["records"][0][2]:
                return [Failure("C17:whole-contig", {"record": prior["records"][0][0], "expected": prior["records"][0][2][:80], "actual": got0[:80], "in_prior_file": True})]
            os.remove(path + ".fai")
        with open(path, "wb") as f:
            f.write(data)
        try:
            if case["index"] == "supplied":
                with open(path + ".fai", "w") as f:
                    # (a supplied index may or may not end with a newline)
                    f.write("\n".join(f"{m['name']}\t{m['rlen']}\t{m['offset']}\t{m['lenc']}\t{m['lenb']}" for m in model)
                            + ("" if case.get("fai_no_final_newline") else "\n"))
            if case["index"] == "library-via-genome":
                # the genome object is the first to touch the file and writes the index; every later user of the file reads that index
                bnp.Genome.from_file(path)
            fa = bnp.open_indexed(path)
        except Exception as e:
            return [Failure(f"C17:open-raised:{case['index']}:{type(e).__name__}:{_where(e)}", {"error": repr(e)[:300]})]
        try:
            if case["index"] in ("library", "library-via-genome"):
                rows = [l.rstrip("\n").split("\t") for l in open(path + ".fai")]
                if len(rows) != len(model):
                    return [Failure("C17:fai-record-count", {"expected": len(model), "actual": len(rows)})]
                for r, m in zip(rows, model):
                    got = {"name": r[0].split()[0], "rlen": int(r[1]), "offset": int(r[2]), "lenc": int(r[3]), "lenb": int(r[4])}
                    for key in ("name", "rlen", "offset", "lenc", "lenb"):
                        if key == "lenb" and not m["first_line_terminated"]:
                            continue
                        if got[key] != m[key]:
                            return [Failure(f"C17:fai-{key}", {"record": m["name"], "expected": m[key], "actual": got[key], "row": r})]
            lengths = fa.get_contig_lengths()
            want_len = {m["name"]: m["rlen"] for m in model}
            if {k: int(v) for k, v in lengths.items()} != want_len:
                return [Failure("C17:contig-lengths", {"expected": want_len, "actual": {k: int(v) for k, v in lengths.items()}})]
            for name, desc, seq, w in recs:
                got = fa[name].to_string()
                if got != seq:
                    return [Failure("C17:whole-contig", {"record": name, "expected": seq[:80], "actual": got[:80], "wrap": w})]
            ivs = case["intervals"]
            if ivs:
                names = [recs[ri][0] for ri, a, b in ivs]
                starts = np.array([a for ri, a, b in ivs], dtype=int)
                stops = np.array([b for ri, a, b in ivs], dtype=int)
                want = [recs[ri][2][a:b] for ri, a, b in ivs]
                got = fa.get_interval_sequences(Interval(names, starts, stops)).tolist()
                if got != want:
                    j = next((i for i, (g, x) in enumerate(zip(got, want)) if g != x), None)
                    return [Failure("C17:interval-sequences:per-interval-path", {"interval": ivs[j] if j is not None else None, "wrap": recs[ivs[j][0]][3] if j is not None else None,
                                                                                "expected": want[j] if j is not None else want, "actual": got[j] if j is not None else got})]
                labels = [m["name"] for m in model]
                if case.get("label_order"):
                    labels = [labels[i % len(labels)] for i in case["label_order"]]
                    labels = list(dict.fromkeys(labels + [m["name"] for m in model]))
                enc = StringEncoding(labels)
                got = fa.get_interval_sequences(Interval(enc.encode(names), starts, stops)).tolist()
                if got != want:
                    j = next((i for i, (g, x) in enumerate(zip(got, want)) if g != x), None)
                    return [Failure("C17:interval-sequences:string-encoded-path", {"interval": ivs[j] if j is not None else None, "labels": labels,
                                                                                  "expected": want[j] if j is not None else want, "actual": got[j] if j is not None else got})]
                if case.get("genome_route") and all("_" not in nm for nm in names):
                    # the other public entry to the indexed file: Genome.from_file(...).read_sequence(), intervals in the given (unsorted) order
                    gseq = bnp.Genome.from_file(path).read_sequence()
                    got = [x.upper() for x in gseq.extract_intervals(Interval(names, starts, stops)).tolist()]
                    if got != [x.upper() for x in want]:
                        j = next((i for i, (g, x) in enumerate(zip(got, want)) if g != x.upper()), None)
                        return [Failure("C17:interval-sequences:genome-route", {"interval": ivs[j] if j is not None else None, "n_intervals": len(ivs),
                                                                             "expected": want[j] if j is not None else want, "actual": got[j] if j is not None else got})]
        except Exception as e:
            return [Failure(f"C17:raised:{type(e).__name__}:{_where(e)}", {"error": repr(e)[:300]})]
        finally:
            try:
                fa._f_obj.close()
            except Exception:
                pass
    return out


# ---------------------------------------------------------------------------------------

def seq_of(L, k):
    return "".join("ACGTN"[(i * 7 + k * 3 + i // 3) % 5] for i in range(L))


def core_cases(nrec, Lmax, Wmax, stride=1, offset=0):
    n = 0
    for Ls in itertools.product(range(1, Lmax + 1), repeat=nrec):
        for Ws in itertools.product(range(1, Wmax + 1), repeat=nrec):
            n += 1
            if (n + offset) % stride:
                continue
            recs = [["r%d" % i if i % 2 else "chr%d" % (i + 1), "a>desc" if i == 0 else "", seq_of(L, i), W] for i, (L, W) in enumerate(zip(Ls, Ws))]
            ivs = [[i, a, b] for i, L in enumerate(Ls) for a in range(L) for b in range(a + 1, L + 1)]
            for index, final_nl in (("library", True), ("supplied", True), ("library", False)):
                case = {"records": recs, "intervals": ivs, "index": index, "final_nl": final_nl}
                if nrec > 1:
                    case["label_order"] = list(range(nrec - 1, -1, -1))
                yield case


def task_core(stats, known_open, nrec, Lmax, Wmax, stride=1, offset=0):
    import sys
    core.run_enumeration(sys.modules[__name__], core_cases(nrec, Lmax, Wmax, stride, offset), stats, known_open,
                         name=f"core:N={nrec}:L<={Lmax}:W<={Wmax}")


@st.composite
def sampled_case(draw, Lmax, Wmax):
    n = draw(st.integers(1, 4))
    recs = []
    for i in range(n):
        w = draw(st.one_of(st.integers(1, 8), st.integers(1, Wmax), st.sampled_from([60, 70, 80])))
        L = draw(st.one_of(st.integers(1, Lmax), st.sampled_from([w, 2 * w, 3 * w, w + 1, max(1, w - 1), 2 * w + 1])))
        L = max(1, min(L, Lmax))
        name = draw(st.sampled_from(["chr", "c", "seq_", "X"])) + str(i)
        recs.append([name, draw(st.sampled_from(["", "", "some description", "len=5 x", "variant=A>G in exon 2", "a>b >c", ">"])), draw(st.text(alphabet="ACGTNacgt", min_size=L, max_size=L)), w])
    ivs = []
    for _ in range(draw(st.integers(0, 8))):
        ri = draw(st.integers(0, n - 1))
        L, w = len(recs[ri][2]), recs[ri][3]
        breaks = [p for k in range(0, L // w + 2) for p in (k * w - 1, k * w, k * w + 1) if 0 <= p <= L]
        a = draw(st.one_of(st.sampled_from(breaks), st.integers(0, L))) if breaks else 0
        a = min(a, L - 1)
        b = draw(st.one_of(st.sampled_from([p for p in breaks if p > a] or [L]), st.integers(a + 1, L)))
        ivs.append([ri, a, b])
    case = {"records": recs, "intervals": ivs, "index": draw(st.sampled_from(["library", "supplied", "library-via-genome"])), "final_nl": draw(st.booleans()),
            "genome_route": draw(st.booleans()), "fai_no_final_newline": draw(st.booleans()), "prior_at_same_path": draw(st.integers(0, 3)) == 0,
            "crlf": draw(st.integers(0, 3)) == 0}
    if n > 1:
        case["label_order"] = draw(st.permutations(list(range(n))))
    return case


def task_sampled(stats, known_open, n, seed, Lmax, Wmax):
    import sys
    core.run_hypothesis(sys.modules[__name__], sampled_case(Lmax, Wmax), stats, known_open, max_examples=n, seed=seed)


def task_big(stats, known_open, n_records=7):
    """One file larger than the five-million-byte chunk of create_index: 7 records of 0.8 MB span two chunks, 20 records span four
    (offsets of the third and later chunks need the sizes of all earlier chunks, not only of the previous one)."""
    import sys
    recs = []
    widths = [60, 70, 80, 61, 100, 50, 7]
    for i in range(n_records):
        w = widths[i % 7] + (i // 7)
        L = 800_000 + i * 1013
        unit = seq_of(997, i)
        recs.append(["big%d" % i, "", (unit * (L // 997 + 1))[:L], w])
    ivs = [[i, a, b] for i in range(n_records) for a, b in ((0, 10), (59, 61), (799_990, 800_000 + i * 1013), (400_000, 400_123))]
    case = {"records": recs, "intervals": ivs, "index": "library", "final_nl": True, "label_order": list(range(n_records))[::-1]}
    core.run_case(sys.modules[__name__], case, stats, known_open)
    stats.exhaustive["big-file-%d-records-of-0.8MB" % n_records] = True


def tasks(tier, seed):
    out = []
    if tier == "quick":
        out.append(("task_core", dict(nrec=1, Lmax=7, Wmax=8)))
        for o in range(4):
            out.append(("task_core", dict(nrec=2, Lmax=4, Wmax=5, stride=4, offset=o)))
        for j in range(3):
            out.append(("task_sampled", dict(n=150, seed=seed * 100 + j, Lmax=300, Wmax=130)))
        out.append(("task_big", {}))
        out.append(("task_big", {"n_records": 20}))
    else:
        out.append(("task_core", dict(nrec=1, Lmax=7, Wmax=8)))
        for o in range(8):
            out.append(("task_core", dict(nrec=2, Lmax=7, Wmax=8, stride=8, offset=o)))
        for o in range(4):
            out.append(("task_core", dict(nrec=3, Lmax=4, Wmax=4, stride=4, offset=o)))
        for j in range(10):
            out.append(("task_sampled", dict(n=250, seed=seed * 100 + j, Lmax=400, Wmax=120)))
        out.append(("task_big", {}))
        out.append(("task_big", {"n_records": 20}))
        out.append(("task_big", {"n_records": 33}))
    return out
