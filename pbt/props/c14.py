"""C14  Reverse complement, stranded extraction and translation are biologically exact."""
import itertools
import os
import traceback

from hypothesis import strategies as st

from pbt import core
from pbt.core import Failure

ID = "C14"
RULE = ("(a) reverse complement of lists of DNA strings over {A,C,G,T,N,a,c,g,t,n} in ASCII, ACGT (no N) and ACGTn encodings, empty rows included: "
        "exhaustive for every string of length <= 4 over the ten characters (singly, and in pairs with an empty row), Hypothesis up to length 200; "
        "(b) get_strand_specific_sequences on a generated sequence, and GenomicSequence[stranded GenomicIntervals] on a multi-chromosome "
        "dict-backed sequence, with 1..8 or 17..40 intervals and strands (all '+', all '-', mixed; length-one intervals included); (c) translate_dna_to_protein on all 64 codons, every concatenation of 2 codons, a seeded stride of 3-codon concatenations and "
        "Hypothesis concatenations in upper and lower case, as lists with empty rows. "
        "Oracle: a table-driven model written out in this module (str.translate then reverse; codon table) and Biopython (Seq.reverse_complement, "
        "Seq.translate) as a second independent oracle; row lengths preserved; applying reverse complement twice returns the input. Output case "
        "is not fixed by the property, so results are compared after upper-casing. "
        "Non-trivial: a string with at least two different letters that is not its own reverse complement; for translation at least two codons.")
ASSUMPTIONS = [
    "Output case is compared case-insensitively (the property fixes which letters are exchanged, not the case).",
    "Translation input that is already encoded with a DNA alphabet (ACGT, ACGTN) is re-targeted by the library to the codon alphabet and is refused when that is not possible: for such input the oracle is 'the same protein as for the text, or an exception' (counted under raised_allowed), never a different protein.",
]
REQUIRED_CLASSES = ["lower-case", "contains-N", "empty-row", "ascii", "ACGT", "ACGTn", "minus-strand", "length-one-interval", "stop-codon", "all-64-codons", "many-intervals", "genomic", "translate-encoded-input", "lazily-read-entries", "indexed-fasta-in-another-order", "intervals-passed-through-clip-replace-slice-concatenate-or-extension",
                    "earlier-result-edited-then-extracted-again", "single-interval-result-edited-then-extracted-again"]
BOUNDS = {"quick": "revcomp: all 11110 strings of length <= 4 in ASCII and ACGTn; translation: 64 codons + 4096 pairs + 4096 strided triples; 300 sampled per family",
          "thorough": "same exhaustive cores in all three encodings; all 262144 codon triples; 10000 sampled per family"}
BUDGET_S = {"quick": 200, "thorough": 1500}

COMP = str.maketrans("ACGTNacgtn", "TGCANtgcan")
CODON = {}
for i, (a, b, c) in enumerate(itertools.product("TCAG", repeat=3)):
    CODON[a + b + c] = "FFLLSSSSYY**CC*WLLLLPPPPHHQQRRRRIIIMTTTTNNKKSSRRVVVVAAAADDEEGGGG"[i]


def _where(e):
    tb = traceback.extract_tb(e.__traceback__)
    return next((f"{os.path.basename(fr.filename)}:{fr.name}" for fr in reversed(tb) if "/bionumpy/" in fr.filename), "?")


def revcomp(s):
    return s.translate(COMP)[::-1]


def classify(case):
    k = case["kind"]
    cl = [k]
    rows = case.get("rows", [])
    txt = "".join(rows) + case.get("seq", "")
    if any(c.islower() for c in txt):
        cl.append("lower-case")
    if "N" in txt.upper():
        cl.append("contains-N")
    if any(r == "" for r in rows):
        cl.append("empty-row")
    if case.get("enc"):
        cl.append(case["enc"])
    nontrivial = False
    if k == "revcomp":
        nontrivial = any(len(set(r.upper())) >= 2 and revcomp(r).upper() != r.upper() for r in rows)
    elif k == "stranded":
        if any(s == "-" for _, _, s in case["ivs"]):
            cl.append("minus-strand")
        if any(b - a == 1 for a, b, _ in case["ivs"]):
            cl.append("length-one-interval")
        nontrivial = any(s == "-" for _, _, s in case["ivs"]) and len(set(case["seq"].upper())) >= 2
    elif k == "genomic":
        if any(z == "-" for _, _, _, z in case["ivs"]):
            cl.append("minus-strand")
        if len(case["ivs"]) >= 17:
            cl.append("many-intervals")
        if case.get("edit_result"):
            cl.append("earlier-result-edited-then-extracted-again")
            if len(case["ivs"]) == 1:
                cl.append("single-interval-result-edited-then-extracted-again")
        if case.get("fasta_order"):
            cl.append("indexed-fasta-in-another-order")
        if case.get("via") and any(z == "-" for _, _, _, z in case["ivs"]):
            cl.append("intervals-passed-through-clip-replace-slice-concatenate-or-extension")
        nontrivial = len({z for _, _, _, z in case["ivs"]}) == 2
    elif k == "translate":
        if any("*" in "".join(CODON[r[i:i + 3].upper()] for i in range(0, len(r), 3)) for r in rows):
            cl.append("stop-codon")
        if case.get("encoded"):
            cl.append("translate-encoded-input")
        if case.get("lazy_entries") and all(rows):
            cl.append("lazily-read-entries")
        nontrivial = any(len(r) >= 6 for r in rows)
    return nontrivial, cl


def _fresh_result_reencoded(make, enc, want, bucket, detail):
    """`make()` returns a fresh result (possibly a lazy view) that nothing has looked at yet. Changing its encoding (to plain text for encoded
    input, to ACGTN for plain input over those letters) must give the same rows."""
    import bionumpy as bnp
    from bionumpy.encoded_array import change_encoding, BaseEncoding
    from bionumpy.encodings.alphabet_encoding import ACGTnEncoding
    if enc is not None:
        got = [x.upper() for x in change_encoding(make(), BaseEncoding).tolist()]
        how = "change_encoding(result, BaseEncoding)"
    elif all(c in "ACGTN" for w_ in want for c in w_):
        got = [x.upper() for x in bnp.as_encoded_array(make(), ACGTnEncoding).tolist()]
        how = "as_encoded_array(result, ACGTnEncoding)"
    else:
        return None
    if got != want:
        return Failure(bucket + ":fresh-result-reencoded", dict(detail, how=how, expected=want, actual=got))
    return None


def check(case, stats=None):
    import numpy as np
    import bionumpy as bnp
    from Bio.Seq import Seq
    from bionumpy.encodings.alphabet_encoding import ACGTEncoding, ACGTnEncoding
    from bionumpy.datatypes import StrandedInterval
    k = case["kind"]
    encs = {"ascii": None, "ACGT": ACGTEncoding, "ACGTn": ACGTnEncoding}
    try:
        if k == "revcomp":
            rows = case["rows"]
            enc = encs[case["enc"]]
            x = bnp.as_encoded_array(list(rows), enc) if enc is not None else bnp.as_encoded_array(list(rows))
            r = bnp.sequence.get_reverse_complement(x)
            got = [s.upper() for s in r.tolist()]
            want = [revcomp(s).upper() for s in rows]
            bio = [str(Seq(s).reverse_complement()).upper() for s in rows]
            if want != bio:
                return [Failure("C14:oracles-disagree", {"table": want, "biopython": bio})]
            if got != want:
                return [Failure(f"C14:reverse-complement:{case['enc']}", {"rows": rows, "expected": want, "actual": got})]
            # a fresh result handed on before anything has looked at it: read back through another encoding
            fail = _fresh_result_reencoded(lambda: bnp.sequence.get_reverse_complement(x), enc, want, f"C14:reverse-complement:{case['enc']}", {"rows": rows})
            if fail:
                return [fail]
            rr = bnp.sequence.get_reverse_complement(r)
            back = [s.upper() for s in rr.tolist()]
            if back != [s.upper() for s in rows]:
                return [Failure(f"C14:not-an-involution:{case['enc']}", {"rows": rows, "twice": back})]
            if case.get("flat") and len(rows) >= 1 and rows[0]:
                f = bnp.as_encoded_array(rows[0], enc) if enc is not None else bnp.as_encoded_array(rows[0])
                g = bnp.sequence.get_reverse_complement(f).to_string().upper()
                if g != want[0]:
                    return [Failure(f"C14:reverse-complement-flat:{case['enc']}", {"row": rows[0], "expected": want[0], "actual": g})]
        elif k == "stranded":
            seq, ivs = case["seq"], case["ivs"]
            enc = encs[case["enc"]]
            s = bnp.as_encoded_array(seq, enc) if enc is not None else bnp.as_encoded_array(seq)
            t = StrandedInterval(["c"] * len(ivs), np.array([a for a, b, z in ivs], dtype=int), np.array([b for a, b, z in ivs], dtype=int),
                                 "".join(z for a, b, z in ivs))
            r = bnp.sequence.get_strand_specific_sequences(s, t)
            got = [x.upper() for x in r.tolist()]
            want = [(revcomp(seq[a:b]) if z == "-" else seq[a:b]).upper() for a, b, z in ivs]
            if got != want:
                return [Failure("C14:strand-specific", {"sequence": seq, "intervals": ivs, "expected": want, "actual": got})]
            fail = _fresh_result_reencoded(lambda: bnp.sequence.get_strand_specific_sequences(s, t), enc, want, "C14:strand-specific", {"sequence": seq, "intervals": ivs})
            if fail:
                return [fail]
        elif k == "genomic":
            from bionumpy.genomic_data.genomic_sequence import GenomicSequence
            seqs, ivs = case["seqs"], case["ivs"]
            genome = bnp.Genome.from_dict({n: len(s) for n, s in seqs.items()})
            gs = GenomicSequence.from_dict(seqs)
            t = StrandedInterval([c for c, a, b, z in ivs], np.array([a for c, a, b, z in ivs], dtype=int), np.array([b for c, a, b, z in ivs], dtype=int),
                                 "".join(z for c, a, b, z in ivs))
            gi = genome.get_intervals(t, stranded=True)
            via = case.get("via")
            if via == "clip":
                gi = gi.clip()                                    # every interval lies inside its chromosome: nothing to clip
            elif via == "replace":
                gi = bnp.replace(gi, stop=gi.stop + 0)            # the same coordinates set again
            elif via == "slice":
                gi = gi[:]
            elif via == "concat":
                k_ = max(1, len(ivs) // 2)
                gi = np.concatenate([gi[:k_], gi[k_:]]) if len(ivs) >= 2 else np.concatenate([gi])
            elif via == "extend":
                # extension along the strand to a fixed length (start kept on '+', stop kept on '-', clipped to the chromosome), then extraction
                L_ = case.get("L", 3)
                gi = gi.extended_to_size(L_)
                ivs = [[c, a, min(a + L_, len(seqs[c])), z] if z == "+" else [c, max(b - L_, 0), b, z] for c, a, b, z in ivs]
            got = [x.upper() for x in gs[gi].tolist()]
            want = [(revcomp(seqs[c][a:b]) if z == "-" else seqs[c][a:b]).upper() for c, a, b, z in ivs]
            if got != want:
                bad = next(i for i, (g, w) in enumerate(zip(got, want)) if g != w) if len(got) == len(want) else None
                return [Failure("C14:genomic-sequence-stranded" + (":after-" + via if via else ""), {"n_intervals": len(ivs), "first_wrong_row": bad,
                                                                  "expected": want[:6], "actual": got[:6]})]
            if case.get("edit_result"):
                # the caller hard-masks letters in the sequences it was given (its own result); a later extraction of the same intervals from the
                # same genome object still gives the genome's letters
                first = gs[gi]
                edited = False
                try:
                    for ch in case["edit_result"]:
                        first[first == ch] = "N"
                    edited = True
                except Exception:
                    if stats is not None:
                        stats.tolerant["editing-the-extracted-rows-refused"] += 1
                if edited:
                    again = [x.upper() for x in gs[gi].tolist()]
                    if again != want:
                        bad = next(i for i, (g, w) in enumerate(zip(again, want)) if g != w) if len(again) == len(want) else None
                        return [Failure("C14:genomic-sequence-stranded:after-editing-an-earlier-result", {"n_intervals": len(ivs), "first_wrong_row": bad, "masked": case["edit_result"],
                                                                                                        "expected": want[:6], "actual": again[:6]})]
            if case.get("fasta_order"):
                ivs = case["ivs"]          # (the intervals as given: no extension on this route)
                want = [(revcomp(seqs[c][a:b]) if z == "-" else seqs[c][a:b]).upper() for c, a, b, z in ivs]
                # the same extraction from a genome backed by an indexed FASTA whose record order differs from the genome's label order
                import tempfile
                order = [n for n in case["fasta_order"] if n in seqs] + [n for n in seqs if n not in case["fasta_order"]]
                with tempfile.TemporaryDirectory(prefix="pbtc14", dir="/dev/shm" if os.path.isdir("/dev/shm") else None) as d_:
                    fa = os.path.join(d_, "g.fa")
                    with open(fa, "w") as fh:
                        for j_, n in enumerate(order):
                            wrap = 7 + j_
                            fh.write(">" + n + "\n" + "\n".join(seqs[n][i:i + wrap] for i in range(0, len(seqs[n]), wrap)) + "\n")
                    g2 = bnp.Genome.from_file(fa, sort_names=bool(case.get("sort_names")))
                    got = [x.upper() for x in g2.read_sequence()[g2.get_intervals(t, stranded=True)].tolist()]
                if got != want:
                    bad = next(i for i, (g, w) in enumerate(zip(got, want)) if g != w) if len(got) == len(want) else None
                    return [Failure("C14:genomic-sequence-stranded:indexed-fasta", {"n_intervals": len(ivs), "first_wrong_row": bad, "fasta_order": order,
                                                                                  "sort_names": bool(case.get("sort_names")), "expected": want[:6], "actual": got[:6]})]
        elif k == "translate":
            rows = case["rows"]
            want = ["".join(CODON[r[i:i + 3].upper()] for i in range(0, len(r), 3)) for r in rows]
            bio = [str(Seq(r.upper()).translate()) if r else "" for r in rows]
            if want != bio:
                return [Failure("C14:oracles-disagree", {"table": want, "biopython": bio})]
            x = bnp.as_encoded_array(list(rows))
            r = bnp.sequence.translate_dna_to_protein(x)
            got = r.tolist()
            if got != want:
                return [Failure("C14:translation", {"rows": rows, "expected": want, "actual": got})]
            if case.get("encoded"):
                # the same rows already encoded with a DNA alphabet: the result must be the same protein, or the call must refuse
                # (the library re-targets encoded input to the codon alphabet and rejects what it cannot re-target)
                enc = {"ACGT": bnp.DNAEncoding, "ACGTN": bnp.encodings.ACGTnEncoding}[case["encoded"]]
                xe = bnp.as_encoded_array([r_.upper() for r_ in rows], enc)
                try:
                    pe = bnp.sequence.translate_dna_to_protein(xe).tolist()
                except Exception as ex:
                    pe = None
                    if stats is not None:
                        stats.raised_allowed["translate-encoded-input:" + type(ex).__name__] += 1
                if pe is not None and pe != want:
                    return [Failure("C14:translation-encoded-input", {"encoding": case["encoded"], "rows": rows, "expected": want, "actual": pe})]
                # the reverse strand of encoded rows: reverse complement, back to plain text, translate (each result handed straight to the next call)
                from bionumpy.encoded_array import change_encoding, BaseEncoding
                want_rc = ["".join(CODON[revcomp(r_.upper())[i:i + 3]] for i in range(0, len(r_), 3)) for r_ in rows]
                got_rc = bnp.sequence.translate_dna_to_protein(change_encoding(bnp.sequence.get_reverse_complement(xe), BaseEncoding)).tolist()
                if got_rc != want_rc:
                    return [Failure("C14:translation-of-reverse-strand-of-encoded-rows", {"encoding": case["encoded"], "rows": rows, "expected": want_rc, "actual": got_rc})]
            if case.get("lazy_entries") and all(rows):
                # the same sequences as entries read lazily from a FASTQ file: two successive sequence operations on the lazily read table
                import tempfile
                with tempfile.TemporaryDirectory(prefix="pbtc14", dir="/dev/shm" if os.path.isdir("/dev/shm") else None) as d_:
                    fq = os.path.join(d_, "x.fq")
                    with open(fq, "w") as fh:
                        for i, r_ in enumerate(rows):
                            fh.write(f"@n{i}\n{r_.upper()}\n+\n{'I' * len(r_)}\n")
                    ents = bnp.open(fq).read()
                    once = bnp.sequence.get_reverse_complement(ents)
                    twice = bnp.sequence.get_reverse_complement(once)
                    if [x.upper() for x in twice.sequence.tolist()] != [r_.upper() for r_ in rows]:
                        return [Failure("C14:lazy-entries:reverse-complement-twice", {"rows": rows, "actual": twice.sequence.tolist()})]
                    want_rc = ["".join(CODON[revcomp(r_.upper())[i:i + 3]] for i in range(0, len(r_), 3)) for r_ in rows]
                    prot = bnp.sequence.translate_dna_to_protein(bnp.sequence.get_reverse_complement(bnp.open(fq).read()))
                    if prot.sequence.tolist() != want_rc:
                        return [Failure("C14:lazy-entries:translate-of-reverse-complement", {"rows": rows, "expected": want_rc, "actual": prot.sequence.tolist()})]
            if case.get("entry"):
                e = bnp.SequenceEntry(["n%d" % i for i in range(len(rows))], list(rows))
                p = bnp.sequence.translate_dna_to_protein(e)
                if p.sequence.tolist() != want or p.name.tolist() != e.name.tolist():
                    return [Failure("C14:translation-entry", {"rows": rows, "expected": want, "actual": p.sequence.tolist()})]
                # the same table handed to several calls: each result is what the definition gives for the table's own sequences,
                # and results obtained earlier stay what they were
                e2 = bnp.SequenceEntry(["n%d" % i for i in range(len(rows))], list(rows))
                rc1 = bnp.sequence.get_reverse_complement(e2)
                p2 = bnp.sequence.translate_dna_to_protein(e2)
                rc2 = bnp.sequence.get_reverse_complement(rc1)
                want_rc_rows = [revcomp(r_).upper() for r_ in rows]
                seen = {"forward translation after a reverse complement was taken": (p2.sequence.tolist(), want),
                        "reverse complement, read after the later calls": ([x.upper() for x in rc1.sequence.tolist()], want_rc_rows),
                        "reverse complement applied twice": ([x.upper() for x in rc2.sequence.tolist()], [r_.upper() for r_ in rows]),
                        "the table that was handed in": ([x.upper() for x in e2.sequence.tolist()], [r_.upper() for r_ in rows])}
                for what, (g_, w_) in seen.items():
                    if g_ != w_:
                        return [Failure("C14:table-handed-to-several-calls", {"what": what, "rows": rows, "expected": w_, "actual": g_})]
    except Exception as e:  # noqa
        return [Failure(f"C14:raised:{k}:{type(e).__name__}:{_where(e)}", {"error": repr(e)[:300], "case": case})]
    return []


# ---------------------------------------------------------------------------------------

def task_revcomp_core(stats, known_open, enc, stride=1, offset=0):
    import sys
    chars = "ACGTNacgtn" if enc != "ACGT" else "ACGTacgt"

    def cases():
        n = 0
        for L in range(0, 5):
            for tup in itertools.product(chars, repeat=L):
                n += 1
                if (n + offset) % stride:
                    continue
                s = "".join(tup)
                yield {"kind": "revcomp", "enc": enc, "rows": [s], "flat": True}
                if n % 7 == 0:
                    yield {"kind": "revcomp", "enc": enc, "rows": ["", s, s[::-1]]}
    core.run_enumeration(sys.modules[__name__], cases(), stats, known_open, name=f"revcomp:len<=4:{enc}")


def task_codons(stats, known_open, triples_stride, offset=0):
    import sys
    codons = ["".join(c) for c in itertools.product("TCAG", repeat=3)]

    def cases():
        if offset == 0:
            yield {"kind": "translate", "rows": codons, "entry": True}
            yield {"kind": "translate", "rows": codons, "encoded": "ACGT"}
            yield {"kind": "translate", "rows": codons, "encoded": "ACGTN"}
            yield {"kind": "translate", "rows": [c.lower() for c in codons]}
            for c in codons:
                yield {"kind": "translate", "rows": [c]}
            for a in codons:
                yield {"kind": "translate", "rows": [a + b for b in codons] + [""]}
        n = 0
        for a in codons:
            for b in codons:
                n += 1
                if (n + offset) % triples_stride:
                    continue
                yield {"kind": "translate", "rows": [a + b + c for c in codons]}
    core.run_enumeration(sys.modules[__name__], cases(), stats, known_open, name=f"codons:1-2 complete:triples stride {triples_stride}")
    if offset == 0:
        stats.classes["all-64-codons"] += 1


@st.composite
def sampled_case(draw, kind, maxlen):
    if kind == "revcomp":
        enc = draw(st.sampled_from(["ascii", "ACGT", "ACGTn"]))
        chars = "ACGTNacgtn" if enc != "ACGT" else "ACGTacgt"
        rows = draw(st.lists(st.one_of(st.just(""), st.text(alphabet=chars, max_size=maxlen), st.text(alphabet=chars, min_size=1, max_size=5)), min_size=1, max_size=6))
        return {"kind": kind, "enc": enc, "rows": rows, "flat": draw(st.booleans())}
    if kind == "stranded":
        enc = draw(st.sampled_from(["ascii", "ACGTn", "ACGT"]))
        chars = "ACGTNacgtn" if enc != "ACGT" else "ACGT"
        seq = draw(st.text(alphabet=chars, min_size=1, max_size=maxlen))
        n = draw(st.one_of(st.integers(1, 8), st.integers(17, 40)))
        mode = draw(st.sampled_from(["mixed", "mixed", "plus", "minus", "ones"]))
        ivs = []
        for _ in range(n):
            a = draw(st.integers(0, len(seq) - 1))
            b = a + 1 if mode == "ones" else draw(st.integers(a + 1, len(seq)))
            z = {"plus": "+", "minus": "-"}.get(mode) or draw(st.sampled_from("+-"))
            ivs.append([a, b, z])
        return {"kind": kind, "enc": enc, "seq": seq, "ivs": ivs}
    if kind == "genomic":
        names = ["chr1", "chr2", "chr10"][:draw(st.integers(1, 3))]
        seqs = {n: draw(st.text(alphabet="ACGTN", min_size=1, max_size=maxlen)) for n in names}
        ivs = []
        for _ in range(draw(st.one_of(st.just(1), st.integers(1, 8), st.integers(17, 40)))):
            c = draw(st.sampled_from(names))
            a = draw(st.integers(0, len(seqs[c]) - 1))
            ivs.append([c, a, draw(st.integers(a + 1, len(seqs[c]))), draw(st.sampled_from("+-"))])
        case = {"kind": kind, "seqs": seqs, "ivs": ivs, "via": draw(st.sampled_from([None, None, "clip", "replace", "slice", "concat", "extend"])), "L": draw(st.integers(1, 12))}
        if draw(st.integers(0, 2)) == 0:
            case["edit_result"] = draw(st.sampled_from(["G", "GT", "A", "ACGT"]))
        if kind == "genomic" and draw(st.booleans()):
            case["fasta_order"] = draw(st.permutations(list(names)))
            case["sort_names"] = draw(st.booleans())
        return case
    codon = st.text(alphabet="TCAGtcag", min_size=3, max_size=3)
    rows = draw(st.lists(st.lists(codon, max_size=max(1, maxlen // 3)).map("".join), min_size=1, max_size=6))
    return {"kind": "translate", "rows": rows, "entry": draw(st.booleans()), "encoded": draw(st.sampled_from([None, "ACGT", "ACGTN"])),
            "lazy_entries": draw(st.integers(0, 3)) == 0}


def task_sampled(stats, known_open, kind, n, seed, maxlen):
    import sys
    core.run_hypothesis(sys.modules[__name__], sampled_case(kind, maxlen), stats, known_open, max_examples=n, seed=seed)


def tasks(tier, seed):
    out = []
    if tier == "quick":
        for enc in ("ascii", "ACGTn"):
            for o in range(2):
                out.append(("task_revcomp_core", dict(enc=enc, stride=2, offset=o)))
        out.append(("task_codons", dict(triples_stride=64, offset=0)))
        for i, kind in enumerate(("revcomp", "stranded", "translate", "genomic")):
            out.append(("task_sampled", dict(kind=kind, n=300, seed=seed * 100 + i, maxlen=60)))
    else:
        for enc in ("ascii", "ACGTn", "ACGT"):
            for o in range(2):
                out.append(("task_revcomp_core", dict(enc=enc, stride=2, offset=o)))
        for o in range(8):
            out.append(("task_codons", dict(triples_stride=8, offset=o)))
        for i, kind in enumerate(("revcomp", "stranded", "translate", "genomic")):
            for j in range(4):
                out.append(("task_sampled", dict(kind=kind, n=2500, seed=seed * 100 + i * 10 + j, maxlen=200)))
    return out
