"""C05  Lazy and eager reading are observationally equivalent."""
import io
import os
import traceback

from hypothesis import strategies as st

from pbt import bamprog, core, formats, strategies as S
from pbt.core import Failure
from pbt.props import c04

ID = "C05"
RULE = ("One generated file (canonical spellings, LF, final newline: the only input on which an unmodified lazy write and an eager write are "
        "both defined to give the same bytes) is read twice, lazy=True and lazy=False, whole or in chunks of k bytes; the pool holds (lazy, eager) "
        "pairs. A program of up to L steps draws from: len, get field f (any field, any order), t[slice], t[mask], t[int list], t[i], "
        "np.concatenate of two pairs, bnp.replace(t, f=array), attribute assignment t.f = array, tolist, write. Formats: BED3, BED6, narrowPeak, "
        "FASTQ, two-line FASTA, VCF (with and without typed INFO header), SAM. Oracle (differential): after every step both sides give equal "
        "Python-level values (floats within 8 ulp) and equal written bytes, or both raise. Non-trivial: the history has a field access before an "
        "indexing step and a replace or a concatenation (at least two of the lazy object's three stores in play). "
        "BAM (pbt/bamprog.py): a file from the independent encoder read with lazy=True and lazy=False; the same program of selections, single-field "
        "reads, full reads, len, writes and concatenations (random steps plus chains select - read fields - write - read other fields) runs on both; "
        "every observation must be equal in both modes or raise in both, and every table of the pool is read completely at the end.")
ASSUMPTIONS = [
    "Replacement values are arrays in the column's own representation.",
    "Which exception is raised is not compared, only whether one is.",
    "Written bytes that differ only in the text of a float column, by at most 8 ulp, are the open finding D16 (str_to_float is not correctly rounded) seen from this side.",
    "BamBuffer declares supports_modified_write = False: a parsed (eagerly read or concatenated) BAM table has no bytes to write and writing it raises. "
    "For BAM the written bytes are therefore compared only when both modes wrote; a write that raises on the parsed side is the tolerant class 'bam-write-unsupported'.",
]
REQUIRED_CLASSES = ["chunked", "whole", "access-index-replace-concat-write", "concat-second-operand-replaced", "concat-after-access-on-first",
                    "setattr", "int-index", "typed-info", "bam", "bam-write-selection", "bam-observe-after-write", "bam-get-then-write", "bam-same-length-permutation",
                    "mask-as-python-list"]
BOUNDS = {"quick": "300 programs of up to 10 steps for each of 8 text format variants, files of up to 8 records; 400 BAM programs on files of up to 6 records",
          "thorough": "8000 programs of up to 25 steps per text variant, files of up to 25 records; 9600 BAM programs on files of up to 16 records"}
BUDGET_S = {"quick": 200, "thorough": 1500}

FMTS = ["bed3", "bed6", "narrowpeak", "fastq", "fasta2", "vcf", "vcf-typed", "sam", "gfa"]


def _where(e):
    tb = traceback.extract_tb(e.__traceback__)
    return next((f"{os.path.basename(fr.filename)}:{fr.name}" for fr in reversed(tb) if "/bionumpy/" in fr.filename), "?")


def read_pairs(case):
    from bionumpy.io.parser import NumpyFileReader
    from bionumpy.io.npdataclassreader import NpDataclassReader
    fmt = formats.FORMATS[case["fmt"]]
    data = formats.serialize(case)
    sides = []
    for lazy in (True, False):
        r = NpDataclassReader(NumpyFileReader(io.BytesIO(data), fmt.buffer), lazy=lazy)
        if case.get("k"):
            sides.append(list(r.read_chunks(min_chunk_size=case["k"]))[:4])
        else:
            sides.append([r.read()])
    return list(zip(*sides))


def _field_names(table):
    import dataclasses
    return [f.name for f in dataclasses.fields(table)]


def _value(x):
    """Python-level value of whatever an operation returned."""
    import numpy as np
    from bionumpy.bnpdataclass import BNPDataClass
    if isinstance(x, BNPDataClass) or hasattr(x, "get_data_object"):
        try:
            n = len(x)
        except TypeError:
            n = None
        if n is None or getattr(x, "shape", None) == ():
            return ("entry", repr(x))
        return ("table", formats.table_rows(x))
    if isinstance(x, (int, np.integer)):
        return int(x)
    if isinstance(x, list):
        return [repr(v) for v in x]
    try:
        return ("col", formats.column_to_list(x))
    except Exception:
        return repr(x)


def _single_entry_value(e):
    import dataclasses
    out = []
    for f in dataclasses.fields(e):
        v = getattr(e, f.name)
        if hasattr(v, "to_string"):
            v = v.to_string()
        elif hasattr(v, "tolist"):
            v = v.tolist()
        elif dataclasses.is_dataclass(v):
            v = _single_entry_value(v)
        out.append(v)
    return out


def run_side(fn):
    try:
        return ("ok", fn())
    except Exception as e:  # noqa
        return ("raised", e)


def compare(op_name, a, b, out, case, extra=None):
    """a: lazy outcome, b: eager outcome (each ('ok', value) or ('raised', exc))."""
    if a[0] == "raised" and b[0] == "raised":
        return
    if a[0] != b[0]:
        side = "lazy" if a[0] == "raised" else "eager"
        e = a[1] if a[0] == "raised" else b[1]
        out.append(Failure(f"C05:only-{side}-raises:{op_name}:{case['fmt']}:{type(e).__name__}:{_where(e)}",
                           {"error": repr(e)[:300], "op": extra}))
        return
    if not formats.value_equal(a[1], b[1]):
        out.append(Failure(f"C05:values-differ:{op_name}:{case['fmt']}", {"lazy": a[1], "eager": b[1], "op": extra}))


def write_bytes(table, fmt):
    return c04.write_table(table, fmt)


def compare_written(a, b, out, case, extra):
    if a[0] == "raised" and b[0] == "raised":
        return
    if a[0] != b[0]:
        side = "lazy" if a[0] == "raised" else "eager"
        e = a[1] if a[0] == "raised" else b[1]
        out.append(Failure(f"C05:only-{side}-raises:write:{case['fmt']}:{type(e).__name__}:{_where(e)}", {"error": repr(e)[:300], "op": extra}))
        return
    if a[1] == b[1]:
        return
    la, lb = a[1].split(b"\n"), b[1].split(b"\n")
    if len(la) == len(lb):
        float_only = True
        for x, y in zip(la, lb):
            if x == y:
                continue
            fx, fy = x.split(b"\t"), y.split(b"\t")
            if len(fx) != len(fy):
                float_only = False
                break
            for u, v in zip(fx, fy):
                if u != v:
                    try:
                        if formats.ulp_diff(float(u), float(v)) > 8:
                            float_only = False
                    except ValueError:
                        float_only = False
        if float_only:
            out.append(Failure("C05:written-float-text-within-8ulp", {"lazy": a[1][:300], "eager": b[1][:300]}))
            return
        diffs = [(u, v) for x, y in zip(la, lb) if x != y and len(x.split(b"\t")) == len(y.split(b"\t"))
                 for u, v in zip(x.split(b"\t"), y.split(b"\t")) if u != v]
        if diffs and all(u == b"." and v == b"0" for u, v in diffs) and sum(1 for x, y in zip(la, lb) if x != y) == \
                sum(1 for x, y in zip(la, lb) if x != y and len(x.split(b"\t")) == len(y.split(b"\t"))):
            # an Optional[int] column cannot represent the '.' placeholder: the eager table holds 0
            out.append(Failure("C05:written-dot-placeholder-becomes-0", {"lazy": a[1][:300], "eager": b[1][:300]}))
            return
    kind = "header" if [l for l in la if not l.startswith((b"#", b"@"))] == [l for l in lb if not l.startswith((b"#", b"@"))] else "body"
    out.append(Failure(f"C05:written-bytes-differ:{kind}:{case['fmt']}", {"lazy": a[1][:400], "eager": b[1][:400], "op": extra}))


_KNOWN = None


def _known():
    global _KNOWN
    if _KNOWN is None:
        _KNOWN = set(core.open_buckets(ID))
    return _KNOWN


def check(case, stats=None):
    import numpy as np
    import bionumpy as bnp
    from pbt.props.c02 import reset_state
    reset_state()
    if case["fmt"] == "bam":
        return bamprog.check_c05(case, stats)
    fmt = formats.FORMATS[case["fmt"]]
    out = []
    try:
        pool = read_pairs(case)
    except Exception as e:
        return [Failure(f"C05:read-raised:{case['fmt']}:{type(e).__name__}:{_where(e)}", {"error": repr(e)[:300]})]
    if not pool:
        return []
    if any(len(l) != len(e) for l, e in pool):
        return [Failure(f"C05:values-differ:chunk-lengths:{case['fmt']}", {"lazy": [len(l) for l, _ in pool], "eager": [len(e) for _, e in pool]})]
    names = _field_names(pool[0][1])
    repl = c04.REPL[case["fmt"]]
    for step, op in enumerate(case["program"]):
        kind = op["op"]
        l, e = pool[op.get("src", 0) % len(pool)]
        n = len(e)
        if kind == "len":
            compare("len", run_side(lambda: len(l)), run_side(lambda: len(e)), out, case, op)
        elif kind == "field":
            name = names[op["f"] % len(names)]
            compare("field", run_side(lambda: _value(getattr(l, name))), run_side(lambda: _value(getattr(e, name))), out, case, dict(op, name=name))
        elif kind == "tolist":
            compare("tolist", run_side(lambda: [_single_entry_value(x) for x in l.tolist()]),
                    run_side(lambda: [_single_entry_value(x) for x in e.tolist()]), out, case, op)
        elif kind == "rows":
            compare("rows", run_side(lambda: formats.table_rows(l)), run_side(lambda: formats.table_rows(e)), out, case, op)
        elif kind == "write":
            compare_written(run_side(lambda: write_bytes(l, fmt)), run_side(lambda: write_bytes(e, fmt)), out, case, op)
        elif kind == "int":
            if n == 0:
                continue
            i = op["i"] % (2 * n) - n
            a, b = run_side(lambda: _single_entry_value(l[i])), run_side(lambda: _single_entry_value(e[i]))
            npstructures_limit = [x for x in (a, b) if x[0] == "raised" and isinstance(x[1], TypeError) and "0-dimensional" in str(x[1])]
            if npstructures_limit:
                # npstructures cannot take an integer row of a view-shaped ragged column under NumPy 2 (int() of a 1-element
                # array); which side holds a view-shaped column depends on history, not on lazy/eager. Not bionumpy's code.
                if stats is not None:
                    stats.tolerant["int-index-npstructures-TypeError"] += 1
                continue
            compare("int-index", a, b, out, case, op)
        elif kind in ("slice", "mask", "ilist", "perm"):
            pyidx, npidx = c04._resolve_index(op, n)
            a, b = run_side(lambda: l[npidx]), run_side(lambda: e[npidx])
            if a[0] == "ok" and b[0] == "ok":
                pool.append((a[1], b[1]))
                compare("len-after-index", run_side(lambda: len(a[1])), run_side(lambda: len(b[1])), out, case, op)
            else:
                compare(kind, a, b, out, case, op)
        elif kind == "concat":
            l2, e2 = pool[op["src2"] % len(pool)]
            a, b = run_side(lambda: np.concatenate([l, l2])), run_side(lambda: np.concatenate([e, e2]))
            if a[0] == "ok" and b[0] == "ok":
                pool.append((a[1], b[1]))
                compare("len-after-concat", run_side(lambda: len(a[1])), run_side(lambda: len(b[1])), out, case, op)
            else:
                compare("concat", a, b, out, case, op)
        elif kind in ("replace", "setattr"):
            fname = op["field"]
            col, fkind = repl[fname]
            texts = [c04.new_value_text(fkind, op["seed"], i) for i in range(n)]
            if kind == "replace":
                a = run_side(lambda: bnp.replace(l, **{fname: c04.to_array(fkind, texts)}))
                b = run_side(lambda: bnp.replace(e, **{fname: c04.to_array(fkind, texts)}))
                if a[0] == "ok" and b[0] == "ok":
                    pool.append((a[1], b[1]))
                else:
                    compare("replace", a, b, out, case, op)
            else:
                a = run_side(lambda: setattr(l, fname, c04.to_array(fkind, texts)))
                b = run_side(lambda: setattr(e, fname, c04.to_array(fkind, texts)))
                compare("setattr", a, b, out, case, op)
        fresh = [f for f in out if f.bucket not in _known()]
        if fresh:
            fresh[0].detail["step"] = step
            return fresh[:1] + [f for f in out if f.bucket in _known()][:1]
    # final observation of the last pair
    l, e = pool[-1]
    compare("rows", run_side(lambda: formats.table_rows(l)), run_side(lambda: formats.table_rows(e)), out, case, "final")
    if not [f for f in out if f.bucket not in _known()]:
        compare_written(run_side(lambda: write_bytes(l, fmt)), run_side(lambda: write_bytes(e, fmt)), out, case, "final")
    fresh = [f for f in out if f.bucket not in _known()]
    known = {f.bucket: f for f in out if f.bucket in _known()}
    return fresh[:1] + list(known.values())


def classify(case):
    if case["fmt"] == "bam":
        return bamprog.classify(case)
    prog = case["program"]
    kinds = [op["op"] for op in prog]
    cl = [case["fmt"], "chunked" if case.get("k") else "whole"]
    idx = ("slice", "mask", "ilist", "perm")
    first_access = next((i for i, k in enumerate(kinds) if k in ("field", "rows", "tolist")), None)
    has_index_after_access = first_access is not None and any(k in idx for k in kinds[first_access + 1:])
    has_repl_or_concat = any(k in ("replace", "setattr", "concat") for k in kinds)
    chain = ["field", idx, ("replace", "setattr"), "concat", "write"]
    pos = 0
    for k in kinds:
        want = chain[pos]
        if (k in want) if isinstance(want, tuple) else (k == want or (want == "field" and k in ("rows", "tolist"))):
            pos += 1
            if pos == len(chain):
                cl.append("access-index-replace-concat-write")
                break
    # approximate classes for the concatenation hazards
    for i, op in enumerate(prog):
        if op["op"] == "concat":
            prior = kinds[:i]
            if any(k in ("replace", "setattr") for k in prior):
                cl.append("concat-second-operand-replaced")
            if any(k in ("field", "rows", "tolist") for k in prior):
                cl.append("concat-after-access-on-first")
    for k, c in (("setattr", "setattr"), ("int", "int-index")):
        if k in kinds:
            cl.append(c)
    if case.get("info_decl"):
        cl.append("typed-info")
    if any(op["op"] == "mask" and op.get("as_list") for op in prog):
        cl.append("mask-as-python-list")
    return bool(has_index_after_access and has_repl_or_concat), sorted(set(cl))


# ---------------------------------------------------------------------------------------

def op_strategy(fmt):
    src = st.integers(0, 12)
    small = st.integers(-10, 10)
    ops = [
        st.builds(lambda s: {"op": "len", "src": s}, src),
        st.builds(lambda s, f: {"op": "field", "src": s, "f": f}, src, st.integers(0, 11)),
        st.builds(lambda s, f: {"op": "field", "src": s, "f": f}, src, st.integers(0, 11)),
        st.builds(lambda s: {"op": "tolist", "src": s}, src),
        st.builds(lambda s: {"op": "rows", "src": s}, src),
        st.builds(lambda s: {"op": "write", "src": s}, src),
        st.builds(lambda s, i: {"op": "int", "src": s, "i": i}, src, st.integers(0, 40)),
        st.builds(lambda s, a, b, c: {"op": "slice", "src": s, "start": a, "stop": b, "step": c}, src,
                  st.one_of(st.none(), small), st.one_of(st.none(), small), st.one_of(st.none(), st.sampled_from([1, 2, -1, -2, 3]))),
        st.builds(lambda s, b, al: {"op": "mask", "src": s, "bits": [int(x) for x in b], **({"as_list": 1} if al else {})}, src,
                  st.lists(st.booleans(), min_size=1, max_size=8), st.integers(0, 3).map(lambda v: v == 0)),
        st.builds(lambda s, i, al: {"op": "ilist", "src": s, "idx": i, **({"as_list": 1} if al else {})}, src, st.lists(st.integers(0, 40), max_size=6), st.integers(0, 3).map(lambda v: v == 0)),
        st.builds(lambda s, k: {"op": "perm", "src": s, "seed": k}, src, st.integers(0, 20)),
        st.builds(lambda s, t: {"op": "concat", "src": s, "src2": t}, src, src),
        st.builds(lambda s, t: {"op": "concat", "src": s, "src2": t}, src, src),
        st.builds(lambda s, f, sd: {"op": "replace", "src": s, "field": f, "seed": sd}, src, st.sampled_from(sorted(c04.REPL[fmt])), st.integers(0, 999)),
        st.builds(lambda s, f, sd: {"op": "replace", "src": s, "field": f, "seed": sd}, src, st.sampled_from(sorted(c04.REPL[fmt])), st.integers(0, 999)),
        st.builds(lambda s, f, sd: {"op": "setattr", "src": s, "field": f, "seed": sd}, src, st.sampled_from(sorted(c04.REPL[fmt])), st.integers(0, 999)),
    ]
    return st.one_of(*ops)


def ops_of_kind(fmt, *kinds):
    """Strategy for the latest-table (src=-1) version of the given kinds, by construction (no filtering)."""
    small = st.integers(-10, 10)
    table = {
        "field": st.builds(lambda f: {"op": "field", "src": -1, "f": f}, st.integers(0, 11)),
        "rows": st.just({"op": "rows", "src": -1}),
        "tolist": st.just({"op": "tolist", "src": -1}),
        "slice": st.builds(lambda a, b, c: {"op": "slice", "src": -1, "start": a, "stop": b, "step": c},
                           st.one_of(st.none(), small), st.one_of(st.none(), small), st.one_of(st.none(), st.sampled_from([1, 2, -1, -2]))),
        "mask": st.builds(lambda b, al: {"op": "mask", "src": -1, "bits": [int(x) for x in b], **({"as_list": 1} if al else {})},
                          st.lists(st.booleans(), min_size=1, max_size=8), st.integers(0, 3).map(lambda v: v == 0)),
        "ilist": st.builds(lambda i, al: {"op": "ilist", "src": -1, "idx": i, **({"as_list": 1} if al else {})}, st.lists(st.integers(0, 40), min_size=1, max_size=6), st.integers(0, 3).map(lambda v: v == 0)),
        "replace": st.builds(lambda f, sd: {"op": "replace", "src": -1, "field": f, "seed": sd}, st.sampled_from(sorted(c04.REPL[fmt])), st.integers(0, 999)),
        "setattr": st.builds(lambda f, sd: {"op": "setattr", "src": -1, "field": f, "seed": sd}, st.sampled_from(sorted(c04.REPL[fmt])), st.integers(0, 999)),
        "concat": st.builds(lambda t, first: {"op": "concat", "src": -1 if first else t, "src2": t if first else -1}, st.integers(0, 12), st.booleans()),
    }
    return st.one_of(*[table[k] for k in kinds])


@st.composite
def c05_case(draw, variant, max_records, max_steps):
    if variant == "vcf-typed":
        case = draw(S.vcf_case("vcf", max_records, typed=True))
        case.update(crlf=False, final_nl=True)
        for r in case["records"]:      # canonical spellings in typed values are not needed: INFO is never rewritten from values here
            pass
    else:
        case = draw(S.file_case(variant, 1, max_records, 10, canonical=True, crlf=False, final_nl=True))
    fmt = case["fmt"]
    if fmt == "fastq":
        for r in case["records"]:
            r[3] = ""          # '+name' is not the canonical spelling of the separator line
    ops = op_strategy(fmt)
    if draw(st.integers(0, 2)) == 0:
        # a chain that puts all three stores of the lazy object in play: access, index, replace, concatenate, write
        chain = [draw(ops_of_kind(fmt, "field", "rows", "tolist")), draw(ops_of_kind(fmt, "slice", "mask", "ilist")),
                 draw(ops_of_kind(fmt, "replace", "setattr")), draw(ops_of_kind(fmt, "concat")), {"op": "write", "src": -1}]
        prog = []
        for c in chain:
            prog += draw(st.lists(ops, max_size=max(0, (max_steps - 5) // 5)))
            prog.append(c)
        case["program"] = prog
    elif draw(st.integers(0, 3)) == 0:
        # derive, observe the derived table, then come back to the table it was derived from:
        # a derived lazy table shares buffers and offset arrays with its parent
        parent = draw(st.integers(0, 3))
        derive = dict(draw(ops_of_kind(fmt, "slice", "slice", "mask", "ilist")), src=parent)
        observe_child = draw(st.sampled_from([{"op": "write", "src": -1}, {"op": "rows", "src": -1}, {"op": "tolist", "src": -1}]))
        back = [dict(draw(ops_of_kind(fmt, "field", "rows", "tolist")), src=parent), {"op": "write", "src": parent}]
        prog = draw(st.lists(ops, max_size=2)) + [derive, observe_child] + draw(st.lists(ops, max_size=1)) + back
        case["program"] = prog
    else:
        case["program"] = draw(st.lists(ops, min_size=1, max_size=max_steps))
    if draw(st.booleans()):
        size = len(formats.serialize(case))
        case["k"] = draw(st.integers(max(1, size // 6), size + 1))
    return case


def task_fmt(stats, known_open, variant, n, seed, max_records, max_steps):
    import sys
    core.run_hypothesis(sys.modules[__name__], c05_case(variant, max_records, max_steps), stats, known_open, max_examples=n, seed=seed)


def task_bam(stats, known_open, n, seed, max_records, max_steps):
    import sys
    core.run_hypothesis(sys.modules[__name__], bamprog.bam_case(max_records, max_steps), stats, known_open, max_examples=n, seed=seed)


def tasks(tier, seed):
    out = []
    n, mr, ms, reps = (300, 8, 10, 1) if tier == "quick" else (2000, 25, 25, 4)
    for j in range(2 if tier == "quick" else 8):
        out.append(("task_bam", dict(n=200 if tier == "quick" else 1200, seed=seed * 1000 + 900 + j, max_records=6 if tier == "quick" else 16, max_steps=6)))
    for i, v in enumerate(FMTS):
        for j in range(reps):
            out.append(("task_fmt", dict(variant=v, n=n, seed=seed * 1000 + i * 10 + j, max_records=mr, max_steps=ms)))
    return out
