"""C04  Unmodified records and fields are written back byte for byte."""
import io

from hypothesis import strategies as st

from pbt import bamprog, core, formats, strategies as S
from pbt.core import Failure

ID = "C04"
RULE = ("A source file from the grammars with valid non-canonical spellings (leading zeros, '+5', scientific floats, CRLF, optional SAM tags, "
        "FASTQ '+name' lines, header lines), read lazily, for BED3, BED6, narrowPeak, VCF (with and without typed INFO declarations), SAM, FASTQ, two-line FASTA (and GTF, which reads eagerly). "
        "A selection program of up to 6 steps over a pool of tables: slice with any start/stop/step (negative too), boolean mask, integer list "
        "with repeats and negatives, a same-length permutation (reversal, rotation, swapped neighbours), np.concatenate of two earlier results, bnp.replace of one field with a new array in the column's own "
        "representation; observation steps anywhere in the program write a table with NpBufferedWriter or convert it to rows (so later steps see what an earlier write did to shared buffers); the final table is always written. "
        "Oracle: a byte-level model (list of source record byte strings + per-row replaced fields). Unmodified tables must be written as header + "
        "the selected records' original bytes in order. Modified tables: every column that was never replaced keeps each record's original "
        "text; replaced values appear in canonical formatting; rows of a replaced column that came from an operand without the replacement "
        "keep their original text or its canonical re-formatting. Non-trivial: records of >= 2 different byte lengths and a program of >= 2 "
        "steps, or a concatenation after a selection. "
        "BAM (pbt/bamprog.py): files from the independent encoder, read lazily; programs of selections, single-field reads, full reads, writes through "
        "bnp.open(path, 'w') and concatenations, built from random steps and from chains select - read fields - write - read other fields on the same "
        "table; every written selection must decompress to the header plus the selected records' original bytes, every field read at any point must "
        "equal the generated record's value, and after the program every table in the pool is read completely once more.")
ASSUMPTIONS = [
    "Replacement values are arrays in the column's own representation (ndarray, StringArray, encoded array), as the property says 'array values'.",
    "GTF is read eagerly by design, so its integers are generated in canonical spelling only.",
    "For a modified write from a CRLF source, lines may end in LF or CRLF; field texts are compared after removing the line end.",
    "Extra text that is not a field of the entry type (FASTQ '+name') is only required to survive unmodified writes.",
    "BamBuffer declares supports_modified_write = False: only selections of lazily read records can be written. Writing a concatenated (hence parsed) "
    "BAM table raises; that is the tolerant class 'bam-write-unsupported'. bnp.replace is not generated for BAM for the same reason.",
]
REQUIRED_CLASSES = ["negative-step", "repeats", "empty-selection", "select-select-concat", "replace-then-select", "select-then-replace",
                    "crlf", "noncanonical-int", "unmodified", "modified", "observed-then-continued", "write-and-rows", "same-length-permutation", "typed-info", "typed-info-read-and-replace",
                    "bam", "bam-write-selection", "bam-observe-after-write", "bam-get-then-write", "bam-same-length-permutation", "attribute-assignment-on-a-selection-then-observation"]
BOUNDS = {"quick": "500 (file, program) pairs for each of 10 text format variants, up to 10 records, programs of up to 6 steps; 400 BAM pairs of up to 6 records",
          "thorough": "10000 pairs per text format, up to 30 records, programs of up to 8 steps; 9600 BAM pairs of up to 16 records"}
BUDGET_S = {"quick": 200, "thorough": 1500}

FMTS = ["bed3", "bed6", "narrowpeak", "vcf", "vcf-typed", "sam", "fastq", "fasta2", "gtf", "gfa"]

# replaceable fields: name -> (column index in the record, kind)
REPL = {
    "bed3": {"chromosome": (0, "id"), "start": (1, "int"), "stop": (2, "int")},
    "bed6": {"chromosome": (0, "id"), "start": (1, "int"), "name": (3, "id"), "score": (4, "int"), "strand": (5, "strand")},
    "narrowpeak": {"start": (1, "int"), "name": (3, "id"), "strand": (5, "strand"), "signal_value": (6, "float"), "summit": (9, "int")},
    "vcf": {"chromosome": (0, "id"), "position": (1, "pos1"), "id": (2, "str"), "ref_seq": (3, "str"), "filter": (6, "str")},
    "sam": {"name": (0, "id"), "flag": (1, "int"), "position": (3, "int"), "cigar": (5, "str"), "sequence": (9, "str")},
    "fastq": {"name": (0, "id"), "sequence": (1, "str"), "quality": (2, "qual")},
    "fasta2": {"name": (0, "id"), "sequence": (1, "str")},
    "gfa": {"name": (0, "id"), "sequence": (1, "str")},
    "gtf": {"chromosome": (0, "id"), "start": (3, "int"), "source": (1, "str"), "strand": (6, "strand")},
}


def new_value_text(kind, seed, row):
    """Deterministic new value (as canonical text) for row number `row`."""
    x = (seed * 7919 + row * 104729) % 1000003
    if kind in ("int", "pos1"):
        return str(x % (10 ** (1 + x % 7)))
    if kind == "float":
        return repr(float(x % 1000) / 8.0)
    if kind == "strand":
        return "+-."[x % 3]
    if kind == "qual":
        return "I5#~!"[x % 5] * (1 + x % 5) + "5"
    if kind == "id":
        return "n" + str(x % 50) + "_" * (x % 3)
    return "ACGT"[x % 4] * (1 + x % 5)


def to_array(kind, texts):
    import numpy as np
    import bionumpy as bnp
    from bionumpy.string_array import as_string_array
    from bionumpy.encodings import StrandEncoding
    if kind == "int":
        return np.array([int(t) for t in texts], dtype=int)
    if kind == "pos1":
        return np.array([int(t) - 1 for t in texts], dtype=int)   # in-memory positions are 0-based
    if kind == "float":
        return np.array([float(t) for t in texts], dtype=float)
    if kind == "strand":
        return bnp.as_encoded_array("".join(texts), StrandEncoding)
    if kind == "qual":
        from bionumpy.encodings import QualityEncoding
        return bnp.as_encoded_array(list(texts), QualityEncoding)
    if kind == "id":
        return as_string_array(list(texts))
    return bnp.as_encoded_array(list(texts))


def canonical(kind, text):
    try:
        if kind in ("int", "pos1"):
            return str(int(text))
        if kind == "float":
            return str(float(text))
    except ValueError:
        return text
    return text


# ---------------------------------------------------------------------------------------

def _gtf_numbers_canonical(data):
    """GTF lines with the start and stop columns respelt as plain decimal numbers"""
    lines = []
    for line in data.split(b"\n"):
        f = line.split(b"\t")
        if len(f) >= 5 and not line.startswith(b"#"):
            for i in (3, 4):
                try:
                    f[i] = str(int(f[i])).encode()
                except ValueError:
                    pass
        lines.append(b"\t".join(f))
    return b"\n".join(lines)


def _resolve_index(op, n):
    """Python-level index object for the model and numpy-level for the table."""
    import numpy as np
    kind = op["op"]
    if kind == "slice":
        sl = slice(op.get("start"), op.get("stop"), op.get("step"))
        return sl, sl
    if kind == "mask":
        bits = [bool(op["bits"][i % len(op["bits"])]) for i in range(n)] if op["bits"] else [False] * n
        if op.get("as_list") and bits:
            return bits, list(bits)          # the mask handed over as a Python list of bools
        return bits, np.array(bits, dtype=bool)
    if kind == "ilist":
        idx = [(i % (2 * n)) - n for i in op["idx"]] if n else []
        if op.get("as_list") and idx:
            return idx, list(idx)            # the row numbers handed over as a Python list
        return idx, np.array(idx, dtype=int)
    if kind == "perm":
        # a selection of the same length as the table that is not the identity: reversal, rotation or swapped neighbours
        k = op["seed"]
        if k % 3 == 0:
            idx = list(range(n))[::-1]
        elif k % 3 == 1:
            r = (1 + k // 3) % n if n else 0
            idx = list(range(r, n)) + list(range(r))
        else:
            idx = [i + 1 if i % 2 == 0 and i + 1 < n else (i - 1 if i % 2 == 1 else i) for i in range(n)]
        return idx, np.array(idx, dtype=int)
    raise ValueError(kind)


def _apply_model_index(rows, pyidx):
    if isinstance(pyidx, slice):
        return rows[pyidx]
    if pyidx and isinstance(pyidx[0], bool):
        return [r for r, b in zip(rows, pyidx) if b]
    return [rows[i] for i in pyidx]


def run_program(case, on_observe=None):
    """Returns (real_tables, model_tables, replaced_columns_per_table). Observation steps ('write', 'rows') are
    executed in program order, so later steps see whatever an earlier write did to the objects involved."""
    import numpy as np
    import bionumpy as bnp
    from bionumpy.io.parser import NumpyFileReader
    from bionumpy.io.npdataclassreader import NpDataclassReader
    fmt = formats.FORMATS[case["fmt"]]
    data = formats.serialize(case)
    t0 = NpDataclassReader(NumpyFileReader(io.BytesIO(data), fmt.buffer), lazy=True).read()
    reals = [t0]
    models = [[{"rec": i, "repl": {}} for i in range(len(case["records"]))]]
    cols = [set()]
    exact = [fmt.lazy]      # byte-exact write-back is required for selections of the lazily read source only
    for op in case["program"]:
        kind = op["op"]
        if kind in ("write", "rows"):
            s = op["src"] % len(reals)
            if on_observe is not None and on_observe(kind, s, reals, models, cols, exact):
                break
            continue
        if kind == "concat":
            a, b = op["srcs"][0] % len(reals), op["srcs"][1] % len(reals)
            reals.append(np.concatenate([reals[a], reals[b]]))
            models.append([dict(r, repl=dict(r["repl"])) for r in models[a] + models[b]])
            cols.append(cols[a] | cols[b])
            exact.append(False)
        elif kind == "replace":
            s = op["src"] % len(reals)
            fname = op["field"]
            col, fkind = REPL[case["fmt"]][fname]
            n = len(models[s])
            texts = [new_value_text(fkind, op["seed"], i) for i in range(n)]
            reals.append(bnp.replace(reals[s], **{fname: to_array(fkind, texts)}))
            models.append([dict(r, repl=dict(r["repl"], **{fname: t})) for r, t in zip(models[s], texts)])
            cols.append(cols[s] | {fname})
            exact.append(False)
        elif kind == "assign":
            # explicit attribute assignment on one table of the pool (the documented way to modify): that table changes, no other one does
            s = op["src"] % len(reals)
            if s == 0 or not hasattr(reals[s], "get_data_object"):
                continue          # (the source table itself is kept as read; eagerly read tables share columns with their selections by design)
            fname = op["field"]
            col, fkind = REPL[case["fmt"]][fname]
            n = len(models[s])
            texts = [new_value_text(fkind, op["seed"], i) for i in range(n)]
            setattr(reals[s], fname, to_array(fkind, texts))
            models[s] = [dict(r, repl=dict(r["repl"], **{fname: t})) for r, t in zip(models[s], texts)]
            cols[s] = cols[s] | {fname}
            exact[s] = False
        else:
            s = op["src"] % len(reals)
            pyidx, npidx = _resolve_index(op, len(models[s]))
            reals.append(reals[s][npidx])
            models.append(_apply_model_index(models[s], pyidx))
            cols.append(set(cols[s]))
            exact.append(exact[s])
    return reals, models, cols, exact


def write_table(table, fmt):
    from bionumpy.io.parser import NpBufferedWriter
    out = io.BytesIO()
    w = NpBufferedWriter(out, fmt.buffer)
    w.write(table)
    return out.getvalue()


def classify(case):
    if case["fmt"] == "bam":
        nt, cl = bamprog.classify(case)
        return nt, cl + ["unmodified"]
    prog = case["program"]
    kinds = [op["op"] for op in prog]
    cl = [case["fmt"]]
    if "assign" in kinds and any(k in ("write", "rows") for k in kinds[kinds.index("assign"):]):
        cl.append("attribute-assignment-on-a-selection-then-observation")
    if any(op["op"] == "slice" and (op.get("step") or 1) < 0 for op in prog):
        cl.append("negative-step")
    if any(op["op"] == "ilist" and len(set(op["idx"])) < len(op["idx"]) for op in prog):
        cl.append("repeats")
    if any((op["op"] == "mask" and not any(op["bits"])) or (op["op"] == "ilist" and not op["idx"]) for op in prog):
        cl.append("empty-selection")
    if any(op["op"] == "mask" and op.get("as_list") for op in prog):
        cl.append("mask-as-python-list")
    if case.get("columns_after_info"):
        cl.append("vcf-with-sample-columns-read-as-plain-entries")
    if case.get("slice_written_then_parent_read"):
        cl.append("slice-written-then-parent-read")
    sel = ("slice", "mask", "ilist", "perm")
    if "perm" in kinds:
        cl.append("same-length-permutation")
    for i, k in enumerate(kinds):
        if k == "concat" and sum(1 for x in kinds[:i] if x in sel) >= 2:
            cl.append("select-select-concat")
            break
    for i, k in enumerate(kinds):
        if k == "replace" and any(x in sel for x in kinds[i + 1:]):
            cl.append("replace-then-select")
        if k == "replace" and any(x in sel for x in kinds[:i]):
            cl.append("select-then-replace")
    cl = sorted(set(cl))
    if case.get("crlf"):
        cl.append("crlf")
    if case.get("info_decl"):
        cl.append("typed-info")
        if any(k == "rows" for k in kinds) and "replace" in kinds:
            cl.append("typed-info-read-and-replace")
    flat = [x for r in case["records"] for x in r]
    if any((x[:1] == "+" and x[1:].isdigit()) or (len(x) > 1 and x[0] == "0" and x.isdigit()) for x in flat):
        cl.append("noncanonical-int")
    cl.append("modified" if "replace" in kinds else "unmodified")
    obs_at = [i for i, k in enumerate(kinds) if k in ("write", "rows")]
    if obs_at and obs_at[0] < len(kinds) - 1:
        cl.append("observed-then-continued")
    if any(k == "write" for k in kinds) and any(k == "rows" for k in kinds):
        cl.append("write-and-rows")
    sizes = {len(formats.record_bytes(case, r)) for r in case["records"]}
    nontrivial = len(sizes) >= 2 and (len(prog) >= 2 or ("concat" in kinds and any(k in sel for k in kinds)))
    return nontrivial, cl


def source_record_bytes(case, i):
    b = formats.record_bytes(case, case["records"][i])
    if i == len(case["records"]) - 1 and not case.get("final_nl", True):
        e = formats.eol(case).encode()
        if formats.serialize(case).endswith(b[:-len(e)]) and not formats.serialize(case).endswith(b):
            # the source's last line had no terminator; the reader supplies a line feed
            b = b[:-len(e)] + b"\n"
    return b


def expected_unmodified(case, model):
    return formats.header_bytes(case) + b"".join(source_record_bytes(case, r["rec"]) for r in model)


def _split_output(case, out, n_rows):
    """Split written bytes into header and per-record field lists."""
    fmt = formats.FORMATS[case["fmt"]]
    text = out.decode("latin-1")
    lines = text.split("\n")
    if lines and lines[-1] == "":
        lines = lines[:-1]
    lines = [l[:-1] if l.endswith("\r") else l for l in lines]
    n_hdr = len(case.get("header", []))
    hdr, body = lines[:n_hdr], lines[n_hdr:]
    per = {"fasta2": 2, "fastq": 4}.get(fmt.kind, 1)
    if len(body) != per * n_rows:
        return hdr, None
    recs = []
    for i in range(n_rows):
        chunk = body[i * per:(i + 1) * per]
        if fmt.kind == "tsv":
            recs.append(chunk[0].split("\t"))
        elif fmt.kind == "fasta2":
            recs.append([chunk[0][1:], chunk[1], chunk[0][:1]])
        else:
            recs.append([chunk[0][1:], chunk[1], chunk[3], chunk[0][:1] + chunk[2][:1]])
    return hdr, recs


def check_table(case, table, model, replaced_cols, which, exact=True):
    fmt = formats.FORMATS[case["fmt"]]
    try:
        out = write_table(table, fmt)
    except Exception as e:
        import os
        import traceback
        tb = traceback.extract_tb(e.__traceback__)
        where = next((f"{os.path.basename(fr.filename)}:{fr.name}" for fr in reversed(tb) if "/bionumpy/" in fr.filename), "?")
        return [Failure(f"C04:write-raised:{case['fmt']}:{type(e).__name__}:{where}", {"error": repr(e)[:300], "which": which})]
    if exact and not replaced_cols:
        exp = expected_unmodified(case, model)
        if len(model) == 0:
            if out not in (exp, b""):     # an empty selection may or may not emit the header
                return [Failure(f"C04:unmodified-bytes:{case['fmt']}", {"expected": exp[:400], "actual": out[:400], "which": which})]
            return []
        if out != exp:
            kind = "crlf-selection-loses-linefeed" if case.get("crlf") and out.replace(b"\r", b"\r\n") == exp else f"unmodified-bytes:{case['fmt']}"
            if case["fmt"] == "gtf" and _gtf_numbers_canonical(exp) == out:
                # GTF tables are parsed on reading (the reader makes every other table lazy, not this one), so what is written is the
                # canonical spelling of start and stop: the only difference from the source lines
                kind = "gtf-start-stop-written-in-canonical-spelling"
            return [Failure(f"C04:{kind}", {"expected": exp[:400], "actual": out[:400], "which": which})]
        return []
    if len(model) == 0:
        return []
    hdr, recs = _split_output(case, out, len(model))
    if recs is None:
        return [Failure(f"C04:modified-line-count:{case['fmt']}", {"rows": len(model), "actual": out[:400], "which": which})]
    if hdr != case.get("header", []) and not (hdr == [] and not fmt.lazy):
        return [Failure(f"C04:modified-header:{case['fmt']}", {"expected": case.get("header"), "actual": hdr, "which": which})]
    repl_spec = REPL[case["fmt"]]
    by_col = {spec[0]: (name, spec[1]) for name, spec in repl_spec.items()}
    for i, (row, got) in enumerate(zip(model, recs)):
        src = list(case["records"][row["rec"]])
        if fmt.name == "sam":
            src = src[:11] + ([src[11]] if len(src) > 11 and src[11] else [])
            got = got[:11] + (["\t".join(got[11:])] if len(got) > 11 and "".join(got[11:]) else [])   # an empty tags field may be written as a trailing tab
        if fmt.name == "gfa":
            if got[:1] != ["S"]:
                return [Failure("C04:modified-record-type-column:gfa", {"row": i, "actual": got, "which": which})]
            got = got[1:]
        if fmt.kind == "fastq":
            src = [src[0], src[1], src[2], "@+"]
        if fmt.kind == "fasta2":
            src = [src[0], src[1], ">"]
        if len(got) != len(src):
            return [Failure(f"C04:modified-field-count:{case['fmt']}", {"row": i, "expected": src, "actual": got, "which": which})]
        for c, (s, g) in enumerate(zip(src, got)):
            name, fkind = by_col.get(c, (None, None))
            if name in replaced_cols:
                if name in row["repl"]:
                    ok = g == row["repl"][name]
                    what = "replaced-value"
                else:
                    # an Optional[int] column holds 0 for the '.' placeholder, so a re-formatted '.' is '0'
                    ok = g in (s, canonical(fkind, s)) or (s == "." and fkind == "int" and g == "0")
                    if not ok and fkind == "float":
                        try:   # a re-formatted float may differ by the parse tolerance (C18)
                            ok = formats.ulp_diff(float(g), float(s)) <= 8
                        except ValueError:
                            ok = False
                    what = "replaced-column-other-operand"
            else:
                ok = g == s
                what = "unreplaced-field-changed"
                if not ok and case["fmt"] == "gtf" and c in (3, 4) and g.lstrip("-").isdigit() and s.lstrip("+-").isdigit() and int(g) == int(s):
                    what = "gtf-start-stop-written-in-canonical-spelling"       # (the same cause as for the unmodified table: see there)
            if not ok and what == "gtf-start-stop-written-in-canonical-spelling":
                return [Failure(f"C04:{what}", {"row": i, "column": c, "source_text": s, "written": g, "which": which})]
            if not ok:
                return [Failure(f"C04:{what}:{case['fmt']}", {"row": i, "column": c, "source_text": s, "written": g,
                                                            "wanted": row["repl"].get(name, s), "which": which})]
    return []


def model_rows(case, model):
    recs = []
    spec = REPL[case["fmt"]]
    for row in model:
        rec = list(case["records"][row["rec"]])
        for name, text in row["repl"].items():
            rec[spec[name][0]] = text
        recs.append(rec)
    return formats.expected_rows(dict(case, records=recs))


def check(case, stats=None):
    import os
    import traceback
    if case["fmt"] == "bam":
        return bamprog.check_c04(case, stats)
    found = []

    def observe(kind, w, reals, models, cols, exact):
        if kind == "write":
            found.extend(check_table(case, reals[w], models[w], cols[w], which=w, exact=exact[w]))
        else:
            try:
                rows = formats.table_rows(reals[w])
            except Exception as e:
                tb = traceback.extract_tb(e.__traceback__)
                where = next((f"{os.path.basename(fr.filename)}:{fr.name}" for fr in reversed(tb) if "/bionumpy/" in fr.filename), "?")
                found.append(Failure(f"C04:rows-raised:{case['fmt']}:{type(e).__name__}:{where}", {"error": repr(e)[:300], "which": w}))
                return True
            diff = formats.first_row_diff(model_rows(case, models[w]), rows)
            if diff is not None:
                found.append(Failure(f"C04:rows-differ:{case['fmt']}", dict(diff, which=w)))
        return bool(found)

    try:
        reals, models, cols, exact = run_program(case, observe)
    except Exception as e:
        tb = traceback.extract_tb(e.__traceback__)
        where = next((f"{os.path.basename(fr.filename)}:{fr.name}" for fr in reversed(tb) if "/bionumpy/" in fr.filename), "?")
        return [Failure(f"C04:program-raised:{case['fmt']}:{type(e).__name__}:{where}", {"error": repr(e)[:300]})]
    if not found:
        w = len(reals) - 1
        found.extend(check_table(case, reals[w], models[w], cols[w], which=w, exact=exact[w]))
    if not found and case.get("write_source_last"):
        found.extend(check_table(case, reals[0], models[0], cols[0], which=0, exact=exact[0]))
    return found[:1]


# ---------------------------------------------------------------------------------------

def op_strategy(fmt):
    small = st.integers(-12, 12)
    sl = st.builds(lambda a, b, c: {"op": "slice", "src": 0, "start": a, "stop": b, "step": c},
                   st.one_of(st.none(), small), st.one_of(st.none(), small),
                   st.one_of(st.none(), st.sampled_from([1, 2, 3, -1, -2, -3])))
    mask = st.builds(lambda b, al: {"op": "mask", "src": 0, "bits": [int(x) for x in b], **({"as_list": 1} if al else {})},
                     st.lists(st.booleans(), min_size=1, max_size=8), st.integers(0, 3).map(lambda v: v == 0))
    ilist = st.builds(lambda i, al: {"op": "ilist", "src": 0, "idx": i, **({"as_list": 1} if al else {})},
                      st.lists(st.integers(0, 40), min_size=0, max_size=8), st.integers(0, 3).map(lambda v: v == 0))
    concat = st.tuples(st.integers(0, 9), st.integers(0, 9)).map(lambda t: {"op": "concat", "srcs": list(t)})
    repl = st.builds(lambda f, s: {"op": "replace", "src": 0, "field": f, "seed": s},
                     st.sampled_from(sorted(REPL[fmt])), st.integers(0, 1000))
    assign = st.builds(lambda f, s: {"op": "assign", "src": 0, "field": f, "seed": s},
                       st.sampled_from(sorted(REPL[fmt])), st.integers(0, 1000))
    obs = st.sampled_from([{"op": "write", "src": 0}, {"op": "rows", "src": 0}])
    perm = st.integers(0, 20).map(lambda k: {"op": "perm", "src": 0, "seed": k})
    base = st.one_of(sl, mask, ilist, concat, repl, sl, ilist, obs, perm, assign)

    def with_src(op, src):
        if "src" in op:
            op = dict(op, src=src)
        return op
    return st.builds(with_src, base, st.one_of(st.integers(0, 9), st.just(-1)))


@st.composite
def c04_case(draw, fmt, max_records, max_steps):
    canonical_ints = fmt == "gtf" and draw(st.integers(0, 3)) != 0      # (a quarter of the GTF files spell start and stop in other ways)
    if fmt == "vcf-typed":
        # a VCF whose header declares typed INFO keys: reading the INFO column parses it key by key
        case = draw(S.vcf_case("vcf", max_records, typed=True))
        fmt = "vcf"
    elif fmt == "vcf" and draw(st.integers(0, 2)) == 0:
        # a VCF with FORMAT and sample columns read as plain VCF entries (what bnp.open gives for .vcf): the columns after INFO are no
        # fields of the entry type, but they are part of every record
        case = draw(S.vcf_case("vcf2", max_records))
        case["fmt"] = "vcf"
        case["columns_after_info"] = True
    else:
        case = draw(S.file_case(fmt, min_records=1, max_records=max_records, W=10, canonical=canonical_ints,
                                crlf=False if fmt == "gtf" else None))
    if fmt == "gtf":
        # GTF reads eagerly by design: canonical spellings, LF, no header (an eager table loses its header context on replace)
        case["header"] = []
        for r in case["records"]:
            r[5] = "."
    case["program"] = draw(st.lists(op_strategy(fmt), min_size=1, max_size=max_steps))
    if draw(st.integers(0, 5)) == 0:
        case["write_source_last"] = True
    if len(case["records"]) >= 2 and draw(st.integers(0, 3)) == 0:
        # a plain slice that does not start at the first record is taken and written, then the table it was taken from is read and written:
        # what the slice did to itself for writing must not reach its parent
        chain = [{"op": "slice", "src": 0, "start": draw(st.integers(1, len(case["records"]) - 1)), "stop": None, "step": None},
                 {"op": "write", "src": -1}, {"op": "rows", "src": 0}]
        case["program"] = chain + case["program"][:max(0, max_steps - 3)]
        case["write_source_last"] = True
        case["slice_written_then_parent_read"] = True
    return case


def task_fmt(stats, known_open, fmt, n, seed, max_records, max_steps):
    import sys
    core.run_hypothesis(sys.modules[__name__], c04_case(fmt, max_records, max_steps), stats, known_open, max_examples=n, seed=seed)


def task_bam(stats, known_open, n, seed, max_records, max_steps):
    import sys
    core.run_hypothesis(sys.modules[__name__], bamprog.bam_case(max_records, max_steps), stats, known_open, max_examples=n, seed=seed)


def tasks(tier, seed):
    out = []
    n, mr, ms, reps = (500, 10, 6, 1) if tier == "quick" else (2500, 30, 8, 4)
    for j in range(2 if tier == "quick" else 8):
        out.append(("task_bam", dict(n=200 if tier == "quick" else 1200, seed=seed * 1000 + 900 + j, max_records=6 if tier == "quick" else 16, max_steps=6)))
    for i, fmt in enumerate(FMTS):
        for j in range(reps):
            out.append(("task_fmt", dict(fmt=fmt, n=n, seed=seed * 1000 + i * 10 + j, max_records=mr, max_steps=ms)))
    return out
