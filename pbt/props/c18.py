"""C18  Numbers survive conversion between text and arrays."""
import itertools
import math
import struct

from hypothesis import strategies as st

from pbt import core, formats
from pbt.core import Failure

ID = "C18"
RULE = ("Batches for the five conversions in bionumpy.io.strops. Integers: the complete boundary set 0, +-(10^p + d) for p = 0..18, d in -2..2, "
        "the int64 extremes, plus Hypothesis integers, in batches mixing widths 1..19 and signs. Integer text: optional sign, 0..3 leading zeros, "
        "up to 19 digits within int64. Integer lists: ragged lists joined with ',' (with and without the trailing separator) and split again. "
        "Float text: 1..17 significant digits, optional '-', optional fraction (including '.5' and '5.'), optional lower-case exponent -300..300 "
        "with optional sign. Doubles: Hypothesis finite floats and a log-uniform sample. Oracles: ints_to_strings == str(v); str_to_int == int(text); "
        "join/split inverse element by element; str_to_float within 8 ulp of float(text); str_to_float(float_to_strings(x)) == x; and "
        "independence: the result for a row is bit-identical in the full batch, alone, and in a permuted batch. The same integer and float texts are also "
        "read as the columns of a tab-separated file whose columns are all numeric (1..3 columns, the first value often narrower than a later one, with and "
        "without a header line, LF and CRLF), through the delimited-buffer reader, with the same oracles; and the integers are formatted as the start and the "
        "(optional) score column of a BED6 table handed to the file writer, and as integer matrices (row-major, column-major, transposed and strided in memory) "
        "written with matrix_to_csv and parsed back. "
        "Non-trivial: a batch mixing at least two widths, or a value within 2 of a power of ten.")
ASSUMPTIONS = [
    "A leading '+' on float text and an upper-case 'E' are a tolerant class: equals float(text) or raises (the parser documents neither).",
    "Format-then-parse of a double that differs by at most 8 ulp is the open finding D16 (str_to_float is not correctly rounded); a larger error is a violation.",
    "An empty batch may raise or return an empty result.",
]
REQUIRED_CLASSES = ["i2s", "s2i", "ilist", "s2f", "f2s2f", "mixed-widths", "near-power-of-ten", "negative", "leading-zeros", "plus-sign",
                    "scientific", "missing-placeholder", "file-column", "file-column-first-value-narrower-than-widest", "file-column-signed", "int-column-of-a-written-file", "most-negative-value-of-a-narrow-type", "matrix-transposed-view", "matrix-fortran", "matrix-column-slice"]
BOUNDS = {"quick": "boundary set complete (singly and in 40 mixed batches); 2500 Hypothesis batches per conversion (about 20 000 values each); 1250 numeric-column files, each read whole, reversed, first row alone and without its first row",
          "thorough": "boundary set complete; 60 000 batches per conversion (about 500 000 values each); 30 000 numeric-column files"}
BUDGET_S = {"quick": 200, "thorough": 1500}

BOUNDARY = sorted({0, 2 ** 63 - 1, -2 ** 63, 2 ** 63 - 2, -2 ** 63 + 1} |
                  {s * (10 ** p + d) for p in range(19) for d in (-2, -1, 0, 1, 2) for s in (1, -1) if -2 ** 63 <= s * (10 ** p + d) < 2 ** 63})


def bits(x):
    return struct.unpack("<q", struct.pack("<d", float(x)))[0]


def classify(case):
    k = case["kind"]
    cl = [k]
    vals = case.get("values") or []
    texts = case.get("texts") or []
    if k in ("i2s", "i2s_file"):
        if k == "i2s_file":
            cl.append("int-column-of-a-written-file")
        if case.get("narrow") and vals and min(vals) in (-2 ** 7, -2 ** 15, -2 ** 31):
            cl.append("most-negative-value-of-a-narrow-type")
        widths = {len(str(abs(v))) for v in vals}
        if len(widths) > 1:
            cl.append("mixed-widths")
        if any(v in BOUNDARY and abs(v) > 8 for v in vals):
            cl.append("near-power-of-ten")
        if any(v < 0 for v in vals):
            cl.append("negative")
        return len(widths) > 1 or "near-power-of-ten" in cl, cl
    if k in ("s2i", "s2i_missing"):
        widths = {len(t) for t in texts}
        if len(widths) > 1:
            cl.append("mixed-widths")
        if any(t.lstrip("+-").startswith("0") and len(t.lstrip("+-")) > 1 for t in texts):
            cl.append("leading-zeros")
        if any(t.startswith("+") for t in texts):
            cl.append("plus-sign")
        if any(t.startswith("-") for t in texts):
            cl.append("negative")
        if any(t in (".", "") for t in texts):
            cl.append("missing-placeholder")
        return len(widths) > 1, cl
    if k == "ilist":
        lists = case["lists"]
        flat = [v for l in lists for v in l]
        widths = {len(str(abs(v))) for v in flat}
        if len(widths) > 1:
            cl.append("mixed-widths")
        return len(widths) > 1 and len({len(l) for l in lists}) > 1, cl
    if k == "s2f":
        widths = {len(t) for t in texts}
        if len(widths) > 1:
            cl.append("mixed-widths")
        if any("e" in t for t in texts):
            cl.append("scientific")
        if any(t.startswith("-") for t in texts):
            cl.append("negative")
        return len(widths) > 1, cl
    if k == "matrix":
        flat = [v for r in case["values"] for v in r]
        widths = {len(str(abs(v))) for v in flat}
        cl.append("matrix-" + case.get("layout", "c"))
        return len(widths) > 1 and len(case["values"]) > 1 and len(case["values"][0]) > 1, cl
    if k == "filecols":
        rows = case["rows"]
        widths = {len(r[0]) for r in rows}
        cl.append("file-column")
        if len(widths) > 1:
            cl.append("mixed-widths")
        if rows and len(rows[0][0]) < max(len(r[0]) for r in rows):
            cl.append("file-column-first-value-narrower-than-widest")
        if any(t.startswith(("+", "-")) for r in rows for t, ty in zip(r, case["types"]) if ty == "int"):
            cl.append("file-column-signed")
        return len(widths) > 1, cl
    if k == "f2s2f":
        widths = {len(repr(float(v))) for v in vals}
        if len(widths) > 1:
            cl.append("mixed-widths")
        return len(widths) > 1, cl
    return False, cl


def _arr(texts):
    import bionumpy as bnp
    return bnp.as_encoded_array(list(texts))


def _ilist_view_failure(strops, lists, want, batches, keep_last):
    """Permutations and sub-batches taken by indexing the ragged array (views that have not been flattened yet) must give the rows of the
    full batch. A sub-batch without any number is an empty batch (it may raise) and is skipped."""
    import numpy as np
    from npstructures import RaggedArray
    for tag, idx in batches(lists):
        if tag == "full" or not any(lists[i] for i in idx):
            continue
        view = RaggedArray([list(l) for l in lists])[np.array(idx, dtype=int)]
        got = strops.int_lists_to_strings(view, sep=",", keep_last=keep_last).tolist()
        if got != [want[i] for i in idx]:
            return Failure("C18:int-list-join-batch-dependent", {"batch": tag + ":view", "rows": idx, "expected": [want[i] for i in idx], "actual": got})
    return None


_FILE_CLASSES = {}


def _read_columns(rows, types, header, crlf, lazy=False):
    """Write the rows as a tab-separated file whose columns are all numeric and read it through the delimited-buffer reader."""
    import os
    import tempfile
    import bionumpy as bnp
    from bionumpy.bnpdataclass import bnpdataclass
    from bionumpy.io.delimited_buffers import get_bufferclass_for_datatype
    key = tuple(types)
    if key not in _FILE_CLASSES:
        ns = {"__annotations__": {f"c{i}": (int if t == "int" else float) for i, t in enumerate(types)}}
        _FILE_CLASSES[key] = bnpdataclass(type("NumCols" + "".join(t[0] for t in types), (), ns))
    if header:
        bt = get_bufferclass_for_datatype(_FILE_CLASSES[key], delimiter="\t", has_header=True)
    else:   # a headerless table is declared the way the library declares its own formats
        from bionumpy.io.delimited_buffers import DelimitedBuffer
        bt = type("NumColsBuffer", (DelimitedBuffer,), {"dataclass": _FILE_CLASSES[key]})
    eol = "\r\n" if crlf else "\n"
    text = ("\t".join(f"c{i}" for i in range(len(types))) + eol if header else "") + "".join("\t".join(r) + eol for r in rows)
    with tempfile.TemporaryDirectory(prefix="pbtc18") as d:
        path = os.path.join(d, "cols.tsv")
        with open(path, "wb") as f:
            f.write(text.encode())
        fh = bnp.open(path, buffer_type=bt, lazy=lazy)
        table = fh.read()
        fh.close()
        return [getattr(table, f"c{i}").tolist() for i in range(len(types))]


def check(case, stats=None):
    import numpy as np
    from npstructures import RaggedArray
    from bionumpy.io import strops
    k = case["kind"]
    out = []

    def batches(items):
        """the full batch, a permutation, and (for small batches) every singleton"""
        n = len(items)
        yield "full", list(range(n))
        if n > 1:
            yield "reversed", list(range(n - 1, -1, -1))
            yield "rotated", list(range(n // 2, n)) + list(range(n // 2))
            for i in range(min(n, 6)):
                yield f"single{i}", [i]
            yield "without-first", list(range(1, n))

    try:
        if k == "i2s":
            vals = case["values"]
            # the narrowest signed type that holds every value of the batch (a column of 8, 16 or 32 bit integers is formatted like a 64 bit one)
            dt = np.int64
            if case.get("narrow") and vals:
                dt = next(t for t in (np.int8, np.int16, np.int32, np.int64) if np.iinfo(t).min <= min(vals) and max(vals) <= np.iinfo(t).max)
            for tag, idx in batches(vals):
                got = strops.ints_to_strings(np.array([vals[i] for i in idx], dtype=dt)).tolist()
                want = [str(vals[i]) for i in idx]
                if got != want:
                    j = next(i for i, (g, w) in enumerate(zip(got, want)) if g != w)
                    out.append(Failure("C18:int-to-text" if tag == "full" else "C18:int-to-text-batch-dependent",
                                       {"batch": tag, "value": vals[idx[j]], "text": got[j]}))
                    break
        elif k in ("s2i", "s2i_missing"):
            texts = case["texts"]
            fn = strops.str_to_int if k == "s2i" else strops.str_to_int_with_missing
            want_all = [0 if t in ("", ".") else int(t) for t in texts]
            if k == "s2i_missing" and all(t == "." for t in texts):
                want_all = [0] * len(texts)
            for tag, idx in batches(texts):
                sub = [texts[i] for i in idx]
                if k == "s2i_missing" and any(t == "." for t in sub) and not all(t == "." for t in sub):
                    continue   # '.' is only documented for a column that is '.' throughout
                got = fn(_arr(sub)).tolist()
                want = [want_all[i] for i in idx]
                if got != want:
                    j = next(i for i, (g, w) in enumerate(zip(got, want)) if g != w)
                    out.append(Failure("C18:text-to-int" if tag == "full" else "C18:text-to-int-batch-dependent",
                                       {"batch": tag, "text": sub[j], "value": got[j]}))
                    break
                if tag == "full":
                    # the same array object parsed a second time (the first parse must not have touched the text it was given)
                    arr = _arr(sub)
                    once, twice = fn(arr).tolist(), fn(arr).tolist()
                    if once != want or twice != want or arr.tolist() != sub:
                        out.append(Failure("C18:text-to-int-second-parse-of-the-same-array", {"texts": sub[:12], "first": once[:12], "second": twice[:12], "text_afterwards": arr.tolist()[:12]}))
                        break
                if tag != "full" and all(len(t) for t in texts):
                    # the same sub-batch taken by indexing the full array (a view that has not been flattened)
                    got = fn(_arr(texts)[np.array(idx, dtype=int)]).tolist()
                    if got != want:
                        j = next(i for i, (g, w) in enumerate(zip(got, want)) if g != w)
                        out.append(Failure("C18:text-to-int-batch-dependent", {"batch": tag + ":view", "text": sub[j], "value": got[j]}))
                        break
        elif k == "ilist":
            lists = case["lists"]
            ra = RaggedArray([list(l) for l in lists])
            got = strops.int_lists_to_strings(ra, sep=",", keep_last=bool(case.get("keep_last"))).tolist()
            want = ["".join(str(v) + "," for v in l) if case.get("keep_last") else ",".join(str(v) for v in l) for l in lists]
            if got != want:
                out.append(Failure("C18:int-list-join", {"expected": want, "actual": got}))
            elif len(lists) > 1 and _ilist_view_failure(strops, lists, want, batches, bool(case.get("keep_last"))) is not None:
                out.append(_ilist_view_failure(strops, lists, want, batches, bool(case.get("keep_last"))))
            else:
                for row_text, l in zip(got, lists):
                    if not l:
                        continue
                    t = row_text[:-1] if case.get("keep_last") else row_text
                    back = strops.str_to_int(strops.split(_arr([t])[0], sep=",")).tolist()
                    if back != list(l):
                        out.append(Failure("C18:int-list-split", {"text": t, "expected": l, "actual": back}))
                        break
        elif k == "s2f":
            texts = case["texts"]
            tolerant = any(t.startswith("+") or "E" in t for t in texts)
            ref = None
            for tag, idx in batches(texts):
                sub = [texts[i] for i in idx]
                try:
                    got = strops.str_to_float(_arr(sub))
                except Exception as e:
                    if tolerant:
                        if stats is not None:
                            stats.tolerant["plus-or-E-float-raises"] += 1
                        return []
                    raise
                for j, (g, t) in enumerate(zip(got.tolist(), sub)):
                    want = float(t)
                    d = formats.ulp_diff(want, g)
                    if d > 8:
                        out.append(Failure("C18:text-to-float-error", {"batch": tag, "text": t, "expected": repr(want), "actual": repr(g), "ulps": d}))
                        break
                if out:
                    break
                if tag == "full":
                    ref = [bits(x) for x in got.tolist()]
                    # the same array object parsed a second time, then a reordered selection of it
                    arr = _arr(sub)
                    strops.str_to_float(arr)
                    again = [bits(x) for x in strops.str_to_float(arr).tolist()]
                    rev = [bits(x) for x in strops.str_to_float(arr[::-1]).tolist()][::-1] if len(sub) > 1 and all(len(t) for t in sub) else again
                    if again != ref or rev != ref or arr.tolist() != sub:
                        out.append(Failure("C18:text-to-float-second-parse-of-the-same-array", {"texts": sub[:12], "text_afterwards": arr.tolist()[:12],
                                                                                                 "first": got.tolist()[:12], "second": strops.str_to_float(_arr(arr.tolist())).tolist()[:12]}))
                        break
                else:
                    mine = [bits(x) for x in got.tolist()]
                    for pos, i in enumerate(idx):
                        if mine[pos] != ref[i]:
                            out.append(Failure("C18:text-to-float-batch-dependent",
                                               {"batch": tag, "text": texts[i], "in_full_batch": repr(struct.unpack('<d', struct.pack('<q', ref[i]))[0]),
                                                "in_sub_batch": repr(got.tolist()[pos]), "all_texts": texts}))
                            break
                if out:
                    break
        elif k == "i2s_file":
            # the same integers formatted as columns of a written file: a plain int column (start) and an optional one (score) of a BED6 table
            import io as _io
            import bionumpy as bnp
            from bionumpy.datatypes import Bed6
            from bionumpy.io.delimited_buffers import Bed6Buffer
            from bionumpy.io.parser import NpBufferedWriter
            vals = case["values"]
            n = len(vals)
            for which in ("score", "start"):
                cols = {"score": np.zeros(n, dtype=np.int64), "start": np.zeros(n, dtype=np.int64)}
                cols[which] = np.array(vals, dtype=np.int64)
                t = Bed6(["c"] * n, cols["start"], np.ones(n, dtype=np.int64), ["n"] * n, cols["score"], "+" * n)
                buf = _io.BytesIO()
                NpBufferedWriter(buf, Bed6Buffer).write(t)
                lines = buf.getvalue().decode().split("\n")[:n]
                got = [l.split("\t")[4 if which == "score" else 1] for l in lines]
                want = [str(v) for v in vals]
                if got != want:
                    j = next(i for i, (g, w_) in enumerate(zip(got, want)) if g != w_)
                    out.append(Failure(f"C18:int-to-text-in-written-file:{which}-column", {"value": vals[j], "text": got[j]}))
                    break
        elif k == "matrix":
            # an integer matrix written as a separated-values text, in the memory layouts a caller may hold it in, and parsed back
            from bionumpy.io.matrix_dump import matrix_to_csv, parse_matrix
            rows_ = case["values"]
            base = np.array(rows_, dtype=np.int64)
            layout = case.get("layout", "c")
            if layout == "transposed-view":
                m = np.ascontiguousarray(base.T).T            # same values, column-major in memory
            elif layout == "fortran":
                m = np.asfortranarray(base)
            elif layout == "column-slice":
                wide = np.zeros((base.shape[0], base.shape[1] * 2), dtype=np.int64)
                wide[:, ::2] = base
                m = wide[:, ::2]
            else:
                m = base
            header = ["c%d" % j for j in range(base.shape[1])]
            text = matrix_to_csv(m, header=header).to_string()
            want_text = ",".join(header) + "\n" + "".join(",".join(str(v) for v in r) + "\n" for r in rows_)
            if text != want_text:
                out.append(Failure("C18:matrix-to-text", {"layout": layout, "expected": want_text[:300], "actual": text[:300]}))
            else:
                back = parse_matrix(text, field_type=int, rowname_type=None, sep=",")
                if np.asarray(back.data).tolist() != rows_:
                    out.append(Failure("C18:matrix-text-to-int", {"expected": rows_, "actual": np.asarray(back.data).tolist()}))
        elif k == "filecols":
            # the same conversions as a text file's numeric columns are parsed (the fixed-width digit matrix of a delimited column)
            rows, types = case["rows"], case["types"]
            ref = None
            for tag, idx in batches(rows):
                if tag.startswith("single") and tag != "single0" or tag == "rotated":
                    continue        # (each batch is a file: the full one, reversed, the first row alone, all but the first row)
                got = _read_columns([rows[i] for i in idx], types, bool(case.get("header")), bool(case.get("crlf")), bool(case.get("lazy")))
                for c, ty in enumerate(types):
                    for pos, i in enumerate(idx):
                        t, g = rows[i][c], got[c][pos]
                        if ty == "int":
                            if g != int(t):
                                out.append(Failure("C18:file-int-column" if tag == "full" else "C18:file-int-column-batch-dependent",
                                                   {"batch": tag, "column": c, "text": t, "value": g, "column_texts": [rows[i_][c] for i_ in idx][:12]}))
                                break
                        else:
                            d = formats.ulp_diff(float(t), g)
                            if d > 8:
                                out.append(Failure("C18:file-float-column", {"batch": tag, "column": c, "text": t, "actual": repr(g), "ulps": d}))
                                break
                            if ref is not None and bits(g) != ref[c][i]:
                                out.append(Failure("C18:file-float-column-batch-dependent", {"batch": tag, "column": c, "text": t, "in_sub_batch": repr(g)}))
                                break
                    if out:
                        break
                if out:
                    break
                if tag == "full":
                    ref = [[bits(float(x)) for x in col] if ty == "float" else None for col, ty in zip(got, types)]
        elif k == "f2s2f":
            vals = [float(v) for v in case["values"]]
            text = strops.float_to_strings(np.array(vals, dtype=np.float64)).tolist()
            want_text = [repr(v) for v in vals]
            if text != want_text:
                out.append(Failure("C18:float-to-text", {"expected": want_text[:5], "actual": text[:5]}))
            else:
                back = strops.str_to_float(_arr(text)).tolist()
                worst = max((formats.ulp_diff(v, b) for v, b in zip(vals, back)), default=0)
                if worst > 8:
                    j = next(i for i, (v, b) in enumerate(zip(vals, back)) if formats.ulp_diff(v, b) > 8)
                    out.append(Failure("C18:float-roundtrip-error", {"value": repr(vals[j]), "text": text[j], "parsed": repr(back[j]), "ulps": worst}))
                elif worst > 0:
                    j = next(i for i, (v, b) in enumerate(zip(vals, back)) if v != b)
                    out.append(Failure("C18:float-roundtrip-within-8ulp", {"value": repr(vals[j]), "text": text[j], "parsed": repr(back[j]), "ulps": worst}))
    except Exception as e:  # noqa
        if not (case.get("values") or case.get("texts") or case.get("lists") or case.get("rows")):
            if stats is not None:
                stats.tolerant["empty-batch-raises"] += 1
            return []
        import traceback, os
        tb = traceback.extract_tb(e.__traceback__)
        where = next((f"{os.path.basename(fr.filename)}:{fr.name}" for fr in reversed(tb) if "/bionumpy/" in fr.filename), "?")
        return [Failure(f"C18:raised:{k}:{type(e).__name__}:{where}", {"error": repr(e)[:300]})]
    return out[:1]


# ---------------------------------------------------------------------------------------

def task_boundary(stats, known_open):
    import sys
    mod = sys.modules[__name__]

    def cases():
        for v in BOUNDARY:
            yield {"kind": "i2s", "values": [v]}
            yield {"kind": "s2i", "texts": [str(v)]}
        # mixed batches: windows over the sorted boundary set and interleavings of small and large
        for i in range(0, len(BOUNDARY), 5):
            yield {"kind": "i2s", "values": BOUNDARY[i:i + 7]}
            yield {"kind": "s2i", "texts": [str(v) for v in BOUNDARY[i:i + 7]]}
        for i in range(0, len(BOUNDARY) // 2, 3):
            vals = [BOUNDARY[i], BOUNDARY[-1 - i], 0, BOUNDARY[len(BOUNDARY) // 2 + i % 5]]
            yield {"kind": "i2s", "values": vals}
            yield {"kind": "s2i", "texts": [str(v) for v in vals]}
    core.run_enumeration(mod, cases(), stats, known_open, name="int-boundary-set")


ints64 = st.one_of(st.integers(-2 ** 63, 2 ** 63 - 1), st.sampled_from(BOUNDARY), st.integers(-1000, 1000),
                   st.integers(0, 18).flatmap(lambda p: st.integers(10 ** p - 3, min(10 ** p + 3, 2 ** 63 - 1))))


def int_text():
    def build(v, zeros, plus):
        s = str(abs(v))
        if len(s) + zeros > 19 + 3:
            zeros = 0
        body = "0" * zeros + s
        return ("-" if v < 0 else ("+" if plus else "")) + body
    return st.builds(build, ints64, st.sampled_from([0, 0, 0, 1, 2, 3]), st.booleans())


def float_text():
    digits = st.text(alphabet="0123456789", min_size=1, max_size=17)
    frac = st.one_of(st.just(None), st.text(alphabet="0123456789", min_size=0, max_size=17))
    exp = st.one_of(st.just(None), st.tuples(st.sampled_from(["", "+", "-"]), st.integers(0, 300)))

    def build(neg, intpart, fr, ex, lead_dot):
        intpart = intpart.lstrip("0") or "0"
        if fr is not None:
            total = len(intpart) + len(fr)
            if total > 17:
                fr = fr[:max(0, 17 - len(intpart))]
        body = intpart if fr is None else (("" if (lead_dot and intpart == "0" and fr) else intpart) + "." + fr)
        if body in (".", ""):
            body = "0"
        s = ("-" if neg else "") + body
        if ex is not None:
            sign, e = ex
            # keep the value finite
            mag = len(intpart) + (e if sign != "-" else -e)
            if mag > 300:
                e = max(0, 300 - len(intpart))
            s += "e" + sign + str(e)
        return s
    return st.builds(build, st.booleans(), digits, frac, exp, st.booleans())


loguniform = st.builds(lambda m, e, s: s * m * 10.0 ** e, st.floats(1.0, 10.0, exclude_max=True), st.integers(-300, 300), st.sampled_from([1.0, -1.0]))
doubles = st.one_of(st.floats(allow_nan=False, allow_infinity=False, width=64), loguniform, st.floats(-1e6, 1e6, allow_nan=False),
                    st.integers(-10 ** 6, 10 ** 6).map(lambda v: v / 8.0))


@st.composite
def batch_case(draw, kind):
    n = draw(st.one_of(st.integers(1, 12), st.integers(2, 12)))
    if kind in ("i2s", "i2s_file"):
        if kind == "i2s" and draw(st.integers(0, 3)) == 0:
            # a batch that fits a narrower signed type, its extremes included
            bits_ = draw(st.sampled_from([8, 16, 32]))
            lo, hi = -2 ** (bits_ - 1), 2 ** (bits_ - 1) - 1
            return {"kind": kind, "narrow": True, "values": draw(st.lists(st.one_of(st.sampled_from([lo, hi, lo + 1, 0, -1]), st.integers(lo, hi)), min_size=n, max_size=n))}
        return {"kind": kind, "values": draw(st.lists(ints64, min_size=n, max_size=n))}
    if kind == "s2i":
        return {"kind": kind, "texts": draw(st.lists(int_text(), min_size=n, max_size=n))}
    if kind == "s2i_missing":
        if draw(st.booleans()):
            return {"kind": kind, "texts": ["."] * n}
        return {"kind": kind, "texts": draw(st.lists(st.one_of(int_text(), st.just("")), min_size=n, max_size=n))}
    if kind == "ilist":
        lists = draw(st.lists(st.lists(ints64, max_size=5), min_size=n, max_size=n))
        if not any(lists):
            lists[0] = [draw(ints64)]
        return {"kind": kind, "lists": lists, "keep_last": draw(st.booleans())}
    if kind == "s2f":
        texts = draw(st.lists(float_text(), min_size=n, max_size=n))
        if draw(st.integers(0, 9)) == 0:
            i = draw(st.integers(0, n - 1))
            texts[i] = draw(st.sampled_from(["+" + texts[i].lstrip("-"), texts[i].replace("e", "E") if "e" in texts[i] else "1E5"]))
        return {"kind": kind, "texts": texts}
    if kind == "f2s2f":
        return {"kind": kind, "values": draw(st.lists(doubles, min_size=n, max_size=n))}
    if kind == "matrix":
        nr, nc = draw(st.integers(1, 5)), draw(st.integers(1, 5))
        return {"kind": kind, "values": [[draw(ints64) for _ in range(nc)] for _ in range(nr)],
                "layout": draw(st.sampled_from(["c", "transposed-view", "fortran", "column-slice"]))}
    if kind == "filecols":
        types = draw(st.sampled_from([["int"], ["int", "int"], ["int", "float"], ["float", "int"], ["int", "int", "int"], ["float"]]))
        signed = draw(st.integers(0, 2)) == 0
        unsigned_text = st.builds(lambda v, z: "0" * z + str(min(abs(v), 2 ** 63 - 1)), ints64, st.sampled_from([0, 0, 0, 1, 2]))
        cell = {"int": int_text() if signed else unsigned_text, "float": float_text()}
        rows = [[draw(cell[t]) for t in types] for _ in range(n)]
        if draw(st.booleans()) and types[0] == "int":
            rows[0][0] = str(draw(st.integers(0, 99)))       # a short first value before wider ones
        return {"kind": kind, "types": types, "rows": rows, "header": draw(st.booleans()), "crlf": draw(st.integers(0, 4)) == 0,
                "lazy": draw(st.booleans())}
    raise ValueError(kind)


def task_kind(stats, known_open, kind, n, seed):
    import sys
    core.run_hypothesis(sys.modules[__name__], batch_case(kind), stats, known_open, max_examples=n, seed=seed)


KINDS = ["i2s", "s2i", "s2i_missing", "ilist", "s2f", "f2s2f", "filecols", "i2s_file", "matrix"]


def tasks(tier, seed):
    n, reps = (2500, 1) if tier == "quick" else (15000, 4)
    out = [("task_boundary", {})]
    for i, k in enumerate(KINDS):
        for j in range(reps):
            out.append(("task_kind", dict(kind=k, n=n // 2 if k in ("filecols", "i2s_file", "matrix") else n, seed=seed * 1000 + i * 10 + j)))
    return out
