"""C13  Sliding-window sequence functions are row-local and match their definitions."""
import itertools
import math
import os
import traceback
from collections import Counter

from hypothesis import strategies as st

from pbt import core
from pbt.core import Failure

ID = "C13"
RULE = ("Lists of 1..N sequences of length 0..M over ACGT, ACTG, ACUG (bit-packed path), ACGTn, amino acids, the three strand symbols and a two-letter alphabet (generic path), and ASCII for "
        "match_string; always including the possibility of empty rows, rows of length w-1, w and w+1 and a short last row; total letters >= w; "
        "histories of 2..4 calls in one process over alphabets of the same size with the same k (so label tables or lookup tables left by one call cannot serve another alphabet); "
        "in a third of the sampled cases the rows are handed over as a row selection out of a larger, differently ordered collection (a non-contiguous view). "
        "Window / k from 1 to 31 for four-letter alphabets and up to the largest k with |A|^k < 2^63 otherwise; minimizer windows w >= k. "
        "Exhaustive core: every list of up to 2 rows of length 0..4 (3 rows of length 0..3) over a two-letter sub-alphabet with every w <= 5; Hypothesis beyond. "
        "Oracle, per row, in plain Python: k-mer code = little-endian base-|A| number of the window's letters; KmerEncoding.to_string(code) and "
        "KmerEncoding.encode(text) are inverse; minimizer = minimum code in each window; match_string = [row[i:i+len(p)] == p]; motif score = sum "
        "of matrix entries (1e-9, -inf exact); count_kmers = Counter of window texts, over all rows and per row (axis=-1, and count_encoded of the k-mers). Every row yields exactly max(len(row) - w + 1, 0) values. "
        "Large inputs (hundreds of thousands to millions of letters in rows of 2000..6000 letters with rows of length 0, w-1, w, w+1 in between), where an "
        "implementation may work in blocks: the same definitions computed with NumPy one row at a time, for k-mers, minimizers, match_string and k-mer counts. "
        "Non-trivial: >= 2 rows of which one is shorter than w and one at least w, or a large input.")
ASSUMPTIONS = [
    "The total number of letters is at least the window length (the sliding window view needs it); rows may individually be shorter.",
    "count_kmers is generated with k <= 5 (its label table has |A|^k entries).",
]
REQUIRED_CLASSES = ["w=1", "w-equals-row-length", "w-one-more-than-row", "row-shorter-than-w", "empty-row", "bit-packed", "generic", "k>=16",
                    "minimizers", "match_string", "motif", "count", "view-input", "call-history", "history-same-size-other-alphabet", "motif-alphabet-times-window>256",
                    "large-input", "alphabet-of-fewer-than-four-letters", "plain-text-view-input", "kmers-wider-than-64-bits"]
BOUNDS = {"quick": "exhaustive core (<=3 rows, length <=4, two letters, w<=5, all functions); 400 sampled per function family; 24 inputs of 70 000 to 3 000 000 letters",
          "thorough": "exhaustive core; 20000 sampled; 42 inputs of 70 000 to 5 000 000 letters"}
BUDGET_S = {"quick": 300, "thorough": 1500}

ALPHA = {"ACGT": "ACGT", "ACTG": "ACTG", "ACUG": "ACUG", "ACGTn": "ACGTN", "amino": "ACDEFGHIKLMNPQRSTVWY*", "strand": "+-.", "two": "AB"}
MAXK = {"ACGT": 31, "ACTG": 31, "ACUG": 31, "ACGTn": 27, "amino": 14, "strand": 31, "two": 31}


def enc_of(name):
    from bionumpy.encodings import alphabet_encoding as ae
    if name == "two":
        return _two_letter_encoding()
    return {"ACGT": ae.ACGTEncoding, "ACTG": ae.ACTGEncoding, "ACUG": ae.ACUGEncoding, "ACGTn": ae.ACGTnEncoding, "amino": ae.AminoAcidEncoding,
            "strand": ae.StrandEncoding}[name]


_TWO = []


def _two_letter_encoding():
    from bionumpy.encodings import alphabet_encoding as ae
    if not _TWO:
        _TWO.append(ae.AlphabetEncoding("AB"))
    return _TWO[0]


def _where(e):
    tb = traceback.extract_tb(e.__traceback__)
    return next((f"{os.path.basename(fr.filename)}:{fr.name}" for fr in reversed(tb) if "/bionumpy/" in fr.filename), "?")


def code(window, alpha):
    n = len(alpha)
    return sum(alpha.index(c) * n ** i for i, c in enumerate(window))


def windows(row, w):
    return [row[i:i + w] for i in range(max(len(row) - w + 1, 0))]


def classify(case):
    if case["fn"] == "history":
        steps = case["steps"]
        cl = ["call-history"]
        for i, a in enumerate(steps):
            for b in steps[i + 1:]:
                if a["fn"] == b["fn"] and a.get("k") == b.get("k") and a["alpha"] != b["alpha"] and len(ALPHA[a["alpha"]]) == len(ALPHA[b["alpha"]]):
                    cl.append("history-same-size-other-alphabet")
        return len(steps) >= 2, sorted(set(cl))
    if case["fn"] == "big":
        return True, ["large-input", "large-input-" + case["what"]]
    rows, w = case["rows"], case["w"]
    cl = [case["fn"]]
    if case.get("fn") == "kmers" and case.get("alpha") in MAXK and case.get("k", 0) > MAXK[case["alpha"]]:
        cl.append("kmers-wider-than-64-bits")
    if case.get("view"):
        cl.append("view-input")
        if case.get("text_input") and case.get("alpha") == "ACGT":
            cl.append("plain-text-view-input")
    if w == 1:
        cl.append("w=1")
    if any(len(r) == w for r in rows):
        cl.append("w-equals-row-length")
    if any(len(r) == w - 1 for r in rows):
        cl.append("w-one-more-than-row")
    if any(len(r) < w for r in rows):
        cl.append("row-shorter-than-w")
    if any(r == "" for r in rows):
        cl.append("empty-row")
    if case["fn"] == "motif" and len(case.get("letters", "")) * w > 256:
        cl.append("motif-alphabet-times-window>256")
    if case["fn"] in ("kmers", "minimizers", "count"):
        cl.append("bit-packed" if len(ALPHA[case["alpha"]]) == 4 else "generic")
        if len(ALPHA[case["alpha"]]) < 4:
            cl.append("alphabet-of-fewer-than-four-letters")
        if case.get("k", 0) >= 16:
            cl.append("k>=16")
    nontrivial = len(rows) >= 2 and any(len(r) < w for r in rows) and any(len(r) >= w for r in rows)
    return nontrivial, cl


def _input(rows, enc, case):
    """The ragged input: built directly from the rows, or (case['view']) taken as a row selection out of a larger, differently ordered
    collection, so that the function receives a non-contiguous view whose rows lie elsewhere and in another order in the parent buffer."""
    import numpy as np
    import bionumpy as bnp
    view = case.get("view")
    if not view:
        return bnp.as_encoded_array(list(rows), enc) if enc is not None else bnp.as_encoded_array(list(rows))
    full = list(rows) + list(view["extra"])
    order = sorted(range(len(full)), key=lambda i: ((i + 1) * view["mult"]) % 1009)     # fixed pseudo-permutation, part of the case
    parent_rows = [full[i] for i in order]
    parent = bnp.as_encoded_array(parent_rows, enc) if enc is not None else bnp.as_encoded_array(parent_rows)
    where = {orig: pos for pos, orig in enumerate(order)}
    idx = np.array([where[i] for i in range(len(rows))], dtype=int)
    return parent[idx]


def check(case, stats=None):
    import numpy as np
    import bionumpy as bnp
    from bionumpy.encodings.kmer_encodings import KmerEncoding
    from bionumpy.sequence.position_weight_matrix import PWM
    if case["fn"] == "history":
        # several calls in one process: what an earlier call leaves behind (label tables, lookup caches) must not change a later one
        for i, step in enumerate(case["steps"]):
            fails = check(step, stats)
            if fails:
                f = fails[0]
                detail = dict(f.detail) if isinstance(f.detail, dict) else {"detail": f.detail}
                detail["step"] = i
                detail["earlier_calls"] = [{"fn": s_["fn"], "alpha": s_.get("alpha"), "k": s_.get("k"), "rows": s_["rows"]} for s_ in case["steps"][:i]]
                return [Failure(f.bucket + ("-after-earlier-calls" if i else ""), detail)]
        return []
    if case["fn"] == "big":
        try:
            return check_big(case)
        except Exception as e:  # noqa
            return [Failure(f"C13:raised:big-{case['what']}:{type(e).__name__}:{_where(e)}", {"error": repr(e)[:300], "case": case})]
    fn, rows, w = case["fn"], case["rows"], case["w"]
    try:
        if fn in ("kmers", "minimizers", "count"):
            alpha = ALPHA[case["alpha"]]
            enc = enc_of(case["alpha"])
            k = case["k"]
            # (plain text handed to a DNA function is encoded on the way in: the same values are expected)
            seqs = _input(rows, None if (case.get("text_input") and case["alpha"] == "ACGT") else enc, case)
            if fn == "kmers":
                if len(alpha) ** k > 2 ** 63:
                    # the number of such a k-mer does not fit the 64 bits it is held in: the call refuses, or (were it to answer) answers rightly
                    try:
                        bnp.sequence.get_kmers(_input(rows, enc, case), k)
                    except (ValueError, AssertionError, OverflowError):
                        if stats is not None:
                            stats.raised_allowed["kmers-wider-than-64-bits-refused"] += 1
                        return []
                res = bnp.sequence.get_kmers(seqs, k)
                got = [list(map(int, r)) for r in res.raw().tolist()] if hasattr(res, "raw") else res.tolist()
                want = [[code(x, alpha) for x in windows(r, k)] for r in rows]
                if got != want:
                    return [Failure("C13:kmer-codes" if [len(g) for g in got] == [len(x) for x in want] else "C13:kmer-row-lengths",
                                    {"k": k, "rows": rows, "expected": want, "actual": got})]
                ke = KmerEncoding(enc, k)
                for r in rows:
                    for x in windows(r, k)[:3]:
                        c = code(x, alpha)
                        s = ke.to_string(c)
                        if s != x:
                            return [Failure("C13:kmer-to-string", {"k": k, "window": x, "code": c, "rendered": s})]
                        e = int(np.asarray(ke.encode(x).raw()))
                        if e != c:
                            return [Failure("C13:kmer-encode", {"k": k, "window": x, "expected": c, "actual": e})]
            elif fn == "minimizers":
                res = bnp.sequence.get_minimizers(seqs, k, w)
                got = [list(map(int, r)) for r in res.raw().tolist()]
                want = [[min(code(x[i:i + k], alpha) for i in range(w - k + 1)) for x in windows(r, w)] for r in rows]
                if got != want:
                    return [Failure("C13:minimizers", {"k": k, "w": w, "rows": rows, "expected": want, "actual": got})]
            else:
                res = bnp.sequence.count_kmers(seqs, k)
                want = Counter(x for r in rows for x in windows(r, k))
                got = {lab: int(c) for lab, c in zip(res.alphabet, np.asarray(res.counts).tolist()) if int(c)}
                if got != dict(want):
                    return [Failure("C13:count_kmers", {"k": k, "rows": rows, "expected": dict(want), "actual": got})]
                # per-row counting (axis=-1): row i holds exactly the counts of sequence i alone
                from bionumpy.sequence.count_encoded import count_encoded
                for how, per in (("count_kmers(axis=-1)", lambda: bnp.sequence.count_kmers(seqs, k, axis=-1)),
                                 ("count_encoded(get_kmers)", lambda: count_encoded(bnp.sequence.get_kmers(_input(rows, enc, case), k)))):
                    res = per()
                    mat = np.asarray(res.counts)
                    got_rows = [{lab: int(c) for lab, c in zip(res.alphabet, mat[i].tolist()) if int(c)} for i in range(len(rows))] if mat.ndim == 2 else None
                    want_rows = [dict(Counter(windows(r, k))) for r in rows]
                    if got_rows != want_rows:
                        bad = next((i for i, (g, w_) in enumerate(zip(got_rows or [], want_rows)) if g != w_), None)
                        return [Failure("C13:count_kmers-per-row", {"how": how, "k": k, "rows": rows, "row": bad,
                                                                    "expected": want_rows[bad] if bad is not None else want_rows,
                                                                    "actual": got_rows[bad] if bad is not None and got_rows else repr(mat.shape)})]
        elif fn == "match_string":
            p = case["pattern"]
            if case.get("alpha"):
                seqs = _input(rows, enc_of(case["alpha"]), case)
            else:
                seqs = _input(rows, None, case)
            res = bnp.match_string(seqs, p)
            got = [list(map(bool, r)) for r in res.tolist()]
            want = [[x == p for x in windows(r, len(p))] for r in rows]
            if got != want:
                return [Failure("C13:match_string", {"pattern": p, "rows": rows, "expected": want, "actual": got})]
        elif fn == "motif":
            letters = case["letters"]
            probs = case["probs"]          # letter -> list of w probabilities
            pwm = PWM.from_dict({a: probs[a] for a in letters})
            seqs = _input(rows, None, case)
            res = bnp.get_motif_scores(seqs, pwm)
            got = [list(map(float, r)) for r in res.tolist()]
            bg = 1.0 / len(letters)

            def score(x):
                t = 0.0
                for i, c in enumerate(x):
                    pr = probs[c][i]
                    if pr == 0:
                        return float("-inf")
                    t += math.log(pr) - math.log(bg)
                return t
            want = [[score(x) for x in windows(r, w)] for r in rows]
            if [len(g) for g in got] != [len(x) for x in want]:
                return [Failure("C13:motif-row-lengths", {"w": w, "rows": rows, "expected": [len(x) for x in want], "actual": [len(g) for g in got]})]
            for g, x in zip(got, want):
                for a, b in zip(g, x):
                    if (math.isinf(b) or math.isinf(a)) and a != b or (not math.isinf(b) and abs(a - b) > 1e-9 * max(1.0, abs(b))):
                        return [Failure("C13:motif-scores", {"rows": rows, "expected": want, "actual": got})]
    except Exception as e:  # noqa
        return [Failure(f"C13:raised:{fn}:{type(e).__name__}:{_where(e)}", {"error": repr(e)[:300], "case": {k: v for k, v in case.items() if k != 'probs'}})]
    return []


def big_rows(case):
    """The rows of a large case, a function of the case alone: rows of a few thousand letters, the boundary lengths 0, w-1, w, w+1 in between
    and a short last row, `n_letters` letters in all over ACGT (as arrays of codes 0..3)."""
    import numpy as np
    rs = np.random.RandomState(case["seed"])
    w = case["w"]
    lengths, total = [], 0
    while total < case["n_letters"]:
        n = int(rs.randint(2000, 6000))
        lengths.append(n)
        total += n
        if len(lengths) % 7 == 3:
            lengths.extend([0, w - 1, w, w + 1])
            total += 3 * w
    lengths.append(3)
    return [rs.randint(0, 4, size=n).astype(np.int64) for n in lengths]


def check_big(case):
    """Inputs of several hundred thousand to millions of letters (where an implementation may switch to working in blocks): the same per-row
    definitions, computed with NumPy one row at a time."""
    import numpy as np
    import bionumpy as bnp
    from numpy.lib.stride_tricks import sliding_window_view
    what, k, w = case["what"], case["k"], case["w"]
    rows = big_rows(case)
    letters = np.array(list("ACGT"))
    texts = ["".join(letters[r]) for r in rows]
    seqs = bnp.as_encoded_array(texts, bnp.DNAEncoding)
    weights = 4 ** np.arange(k, dtype=np.int64)

    def hashes(r):
        return sliding_window_view(r, k) @ weights if len(r) >= k else np.zeros(0, dtype=np.int64)

    if what == "kmers":
        want = [hashes(r) for r in rows]
        res = bnp.sequence.get_kmers(seqs, k)
    elif what == "minimizers":
        want = [sliding_window_view(hashes(r), w - k + 1).min(axis=-1) if len(r) >= w else np.zeros(0, dtype=np.int64) for r in rows]
        res = bnp.sequence.get_minimizers(seqs, k, w)
    elif what == "match_string":
        pat = np.array([int(c) for c in case["pattern"]], dtype=np.int64)
        want = [(sliding_window_view(r, len(pat)) == pat).all(axis=-1) if len(r) >= len(pat) else np.zeros(0, dtype=bool) for r in rows]
        res = bnp.match_string(seqs, "".join(letters[pat]))
    elif what == "count":
        allh = np.concatenate([hashes(r) for r in rows])
        want_counts = np.bincount(allh, minlength=4 ** k)
        res = bnp.sequence.count_kmers(seqs, k)
        got = np.asarray(res.counts)
        if got.shape != want_counts.shape or not np.array_equal(got, want_counts):
            bad = int(np.flatnonzero(got != want_counts)[0]) if got.shape == want_counts.shape else None
            return [Failure("C13:count_kmers:large-input", {"case": case, "kmer": bad, "expected": int(want_counts[bad]) if bad is not None else None,
                                                             "actual": int(got[bad]) if bad is not None else repr(got.shape), "n_windows": int(len(allh))})]
        return []
    else:
        raise ValueError(what)
    got_lengths = np.asarray(res.lengths).tolist() if hasattr(res, "lengths") else None
    if got_lengths != [len(x) for x in want]:
        bad = next((i for i, (a, b) in enumerate(zip(got_lengths or [], [len(x) for x in want])) if a != b), None)
        return [Failure(f"C13:{what}:large-input-row-lengths", {"case": case, "row": bad, "n_rows": len(want), "n_rows_returned": len(got_lengths or [])})]
    flat = res.ravel()
    flat = np.asarray(flat.raw() if hasattr(flat, "raw") else flat)
    want_flat = np.concatenate(want)
    if not np.array_equal(flat, want_flat):
        pos = int(np.flatnonzero(flat != want_flat)[0])
        starts = np.cumsum([0] + [len(x) for x in want])
        row = int(np.searchsorted(starts, pos, side="right") - 1)
        return [Failure(f"C13:{what}:large-input", {"case": case, "row": row, "window": pos - int(starts[row]), "row_length": int(len(rows[row])),
                                                     "expected": int(want_flat[pos]), "actual": int(flat[pos]), "n_wrong": int((flat != want_flat).sum()),
                                                     "n_windows": int(len(want_flat))})]
    return []


def task_big(stats, known_open, cases):
    import sys
    core.run_enumeration(sys.modules[__name__], iter(cases), stats, known_open, name="large-inputs")


# ---------------------------------------------------------------------------------------

def core_cases(stride=1, offset=0):
    two = "AC"
    pool4 = [""] + ["".join(p) for L in range(1, 5) for p in itertools.product(two, repeat=L)]
    pool3 = [r for r in pool4 if len(r) <= 3]
    n = 0
    for nrows in (1, 2, 3):
        for rows in itertools.product(pool4 if nrows < 3 else pool3, repeat=nrows):
            total = sum(len(r) for r in rows)
            n += 1
            if (n + offset) % stride:
                continue
            for w in range(1, 6):
                if total < w:
                    continue
                yield {"fn": "kmers", "alpha": "ACGT", "rows": list(rows), "k": w, "w": w}
                yield {"fn": "kmers", "alpha": "ACGTn", "rows": list(rows), "k": w, "w": w}
                yield {"fn": "match_string", "alpha": None, "rows": list(rows), "pattern": ("ACA" * 2)[:w], "w": w}
                yield {"fn": "count", "alpha": "ACGT", "rows": list(rows), "k": w, "w": w}
                for k in range(1, w + 1):
                    yield {"fn": "minimizers", "alpha": "ACTG", "rows": list(rows), "k": k, "w": w}
                probs = {"A": [0.5, 1.0, 0.25, 0.0, 0.5][:w], "C": [0.5, 0.0, 0.25, 1.0, 0.5][:w], "G": [0.0] * w, "T": [0.0, 0.0, 0.5, 0.0, 0.0][:w]}
                yield {"fn": "motif", "rows": list(rows), "w": w, "letters": "ACGT", "probs": probs}


def task_core(stats, known_open, stride=1, offset=0):
    import sys
    core.run_enumeration(sys.modules[__name__], core_cases(stride, offset), stats, known_open, name="core:<=3rows:len<=4:two-letters:w<=5")


@st.composite
def sampled_case(draw, fn, max_rows, max_len):
    if fn in ("kmers", "minimizers", "count"):
        alpha = draw(st.sampled_from(list(ALPHA)))
        chars = ALPHA[alpha]
        if fn == "count":
            k = draw(st.integers(1, 5 if len(chars) <= 5 else 2))
        else:
            k = draw(st.one_of(st.integers(1, 6), st.integers(1, MAXK[alpha]), st.just(MAXK[alpha])))
            if fn == "kmers" and MAXK[alpha] < 31 and draw(st.integers(0, 3)) == 0:
                k = MAXK[alpha] + draw(st.integers(1, 3))          # one to three letters more than 64 bits hold: refused, not wrapped around
        w = k if fn != "minimizers" else draw(st.integers(k, k + 6))
    elif fn == "match_string":
        alpha = draw(st.sampled_from([None, "ACGT", "amino"]))
        chars = "ACGTacgtN_x" if alpha is None else ALPHA[alpha]
        w = draw(st.integers(1, 10))
        k = None
    else:
        # motif scoring: DNA, and larger alphabets with long motifs (alphabet size x window beyond one byte)
        alpha, k = None, None
        chars = draw(st.sampled_from(["ACGT", "ACGT", "ACGTMRSVWYHKDBN", "ACDEFGHIKLMNPQRSTVWY"]))
        w = draw(st.integers(1, 6)) if len(chars) == 4 else draw(st.one_of(st.integers(1, 6), st.integers(12, 20)))
    lens = st.one_of(st.sampled_from([0, max(w - 1, 0), w, w + 1]), st.integers(0, max(max_len, w + 2)))
    n = draw(st.integers(1, max_rows))
    rows = [draw(lens.flatmap(lambda L: st.text(alphabet=chars, min_size=L, max_size=L))) for _ in range(n)]
    if sum(len(r) for r in rows) < w:
        rows.append(draw(st.text(alphabet=chars, min_size=w, max_size=w + 2)))
    if draw(st.booleans()):
        rows.append(draw(st.text(alphabet=chars, min_size=0, max_size=max(w - 1, 0))))   # a short last row
    case = {"fn": fn, "alpha": alpha, "rows": rows, "w": w}
    if k is not None:
        case["k"] = k
    if fn == "match_string":
        src = draw(st.sampled_from([r for r in rows if len(r) >= w] or ["".join(chars[:1]) * w]))
        i = draw(st.integers(0, len(src) - w))
        mode = draw(st.integers(0, 2))
        if mode == 0:
            case["pattern"] = src[i:i + w]
        elif mode == 1:      # a near miss: an occurring window with its last character changed
            win = src[i:i + w]
            case["pattern"] = win[:-1] + chars[(chars.index(win[-1]) + 1) % len(chars)]
        else:
            case["pattern"] = draw(st.text(alphabet=chars, min_size=w, max_size=w))
    if fn == "motif":
        case["letters"] = chars
        case["probs"] = {a: [draw(st.sampled_from([0.0, 0.1, 0.25, 0.5, 1.0])) for _ in range(w)] for a in chars}
    if draw(st.integers(0, 2)) == 0:
        # the same rows handed over as a selection from a larger, differently ordered collection (a non-contiguous view)
        case["view"] = {"extra": draw(st.lists(st.text(alphabet=chars, min_size=0, max_size=max(max_len, w + 2)), min_size=0, max_size=3)),
                        "mult": draw(st.integers(1, 1008))}
    if fn in ("kmers", "count") and case.get("alpha") == "ACGT" and draw(st.booleans()):    # (get_minimizers asks for encoded input)
        case["text_input"] = True          # plain text in, encoded by the function itself
    return case


@st.composite
def history_case(draw, max_rows, max_len):
    """2..4 calls of the k-mer functions in a row, over alphabets of the same size and with the same k."""
    group = draw(st.sampled_from([["ACGT", "ACTG", "ACUG"], ["ACGT", "ACTG", "ACUG"], ["ACGTn", "amino", "ACGT"]]))
    k = draw(st.integers(1, 3))
    steps = []
    for _ in range(draw(st.integers(2, 4))):
        fn = draw(st.sampled_from(["count", "count", "kmers", "minimizers"]))
        alpha = draw(st.sampled_from(group))
        chars = ALPHA[alpha]
        w = k if fn != "minimizers" else k + draw(st.integers(0, 2))
        rows = [draw(st.text(alphabet=chars, min_size=0, max_size=max_len)) for _ in range(draw(st.integers(1, max_rows)))]
        rows.append(draw(st.text(alphabet=chars, min_size=w, max_size=w + 3)))
        steps.append({"fn": fn, "alpha": alpha, "rows": rows, "w": w, "k": k if not (fn == "count" and len(chars) > 5) else min(k, 2)})
    return {"fn": "history", "steps": steps}


def task_history(stats, known_open, n, seed, max_rows, max_len):
    import sys
    core.run_hypothesis(sys.modules[__name__], history_case(max_rows, max_len), stats, known_open, max_examples=n, seed=seed)


def task_sampled(stats, known_open, fn, n, seed, max_rows, max_len):
    import sys
    core.run_hypothesis(sys.modules[__name__], sampled_case(fn, max_rows, max_len), stats, known_open, max_examples=n, seed=seed)


FNS = ["kmers", "minimizers", "count", "match_string", "motif"]


def tasks(tier, seed):
    out = []
    core_tasks = [("task_core", dict(stride=16, offset=o)) for o in range(16)]       # appended last: the part a time budget may cut short
    n, reps = (400, 1) if tier == "quick" else (1000, 4)
    for i, fn in enumerate(FNS):
        for j in range(reps):
            out.append(("task_sampled", dict(fn=fn, n=n, seed=seed * 1000 + i * 10 + j, max_rows=5 if tier == "quick" else 10, max_len=12 if tier == "quick" else 60)))
    for j in range(2 if tier == "quick" else 8):
        out.append(("task_history", dict(n=n, seed=seed * 1000 + 700 + j, max_rows=3, max_len=8)))
    # large inputs: one task per case so that they run side by side
    sizes = [70_000, 300_000, 1_200_000, 3_000_000] if tier == "quick" else [70_000, 150_000, 300_000, 600_000, 1_200_000, 2_500_000, 5_000_000]
    for j, n_letters in enumerate(sizes):
        cases = []
        for what, k, w in (("minimizers", 4, 8), ("minimizers", 2, 4), ("minimizers", 3, 3), ("kmers", 5, 5), ("match_string", 3, 3), ("count", 3, 3)):
            c = {"fn": "big", "what": what, "k": k, "w": w, "n_letters": n_letters, "seed": seed * 10 + j}
            if what == "match_string":
                c["pattern"] = "012"
            cases.append(c)
        out.append(("task_big", dict(cases=cases[:3])))
        out.append(("task_big", dict(cases=cases[3:])))
    return out + core_tasks
