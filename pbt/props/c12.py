"""C12  Per-chromosome streaming never silently drops or misattributes entries."""
import itertools
import os
import traceback

from hypothesis import strategies as st

from pbt import core
from pbt.core import Failure
from pbt.props import c08

ID = "C12"
RULE = ("Genomes of 1..4 contigs (optionally with an ignored contig that is not listed last) and every sequence of distinct contig groups drawn "
        "from the genome's names, one unknown name and one ignored name (all subsets in all orders: 1957 sequences for six labels), each group "
        "holding one or two entries, crossed with chunkings that cut between and inside groups. Entries of one contig are contiguous (the "
        "property's precondition). Consumers: list(iter_chromosomes(...)); bnp.compute of get_pileup().get_data(), of get_mask().sum(), of "
        "get_intervals(stream).compute(); Genome.get_track(stream); MultiStream attributes zipped with lengths; forbes and jaccard; left_join of the contig list with the grouped stream (the join the streamed pileup is built on). "
        "Oracle (decision table on the group sequence): drop ignored names; if an unknown name remains an exception is required; else if the "
        "remaining names are in genome order the evaluation must complete, contig i receiving exactly the entries carrying its name and contigs "
        "without data an empty table; otherwise an exception is required. Whenever an evaluation completes, the multiset of entries seen "
        "across contigs must equal the multiset of non-ignored input entries, each under its own contig. "
        "Non-trivial: a sequence that disagrees with genome order, or contains an unknown or ignored name, or leaves a contig without data.")
ASSUMPTIONS = [
    "MultiStream, forbes, jaccard and left_join take a plain name->size mapping and have no notion of ignored names: a name outside the mapping is unknown to them.",
    "Which exception is raised is not compared.",
]
REQUIRED_CLASSES = ["in-order", "misordered", "unknown-name", "ignored-name", "contig-without-data", "cut-inside-group", "last-group-misplaced",
                    "iter", "pileup", "mask-sum", "compute", "track", "multistream", "forbes-jaccard", "kept-underscore-name", "text-typed-contig-column", "long-groups",
                    "compute-joint", "joint-evaluation-one-dataset-empty-on-a-contig", "contig-comes-back-after-another", "first-and-last-entry-on-the-same-contig"]
BOUNDS = {"quick": "genomes of 3 contigs (+1 ignored): every group sequence over 5 labels (326) x 3 chunkings x 9 consumers; 4-contig genomes sampled (600)",
          "thorough": "genomes of up to 4 contigs: every group sequence over 6 labels (1957) x 4 chunkings x 9 consumers; 48000 sampled"}
BUDGET_S = {"quick": 200, "thorough": 1500}

CONSUMERS = ["iter", "pileup", "mask-sum", "compute", "track", "multistream", "forbes-jaccard", "left-join", "compute-joint"]


def _where(e):
    tb = traceback.extract_tb(e.__traceback__)
    return next((f"{os.path.basename(fr.filename)}:{fr.name}" for fr in reversed(tb) if "/bionumpy/" in fr.filename), "?")


def verdict(case):
    """'ok' or 'must-raise', and the per-contig expected entries"""
    genome = [n for n, _ in case["genome"]]
    ignored = set(case.get("ignored", []))
    consumer_ignores = case["consumer"] not in ("multistream", "forbes-jaccard", "left-join")
    seq = [g for g in case["groups"]]
    collapse = lambda q: [g for i, g in enumerate(q) if i == 0 or q[i - 1] != g]        # (neighbouring groups of one name are one group)
    seq = collapse(seq)
    # a contig of the genome that comes back with only ignored rows in between: in order once those rows are left out, out of order as the data
    # stands: either outcome is accepted (an error, or a complete evaluation)
    straddles_ignored = consumer_ignores and any(g not in ignored and g in seq[:i - 1] for i, g in enumerate(seq) if i >= 2) \
        and len(set(collapse([g for g in seq if g not in ignored]))) == len(collapse([g for g in seq if g not in ignored]))
    if consumer_ignores:
        seq = collapse([g for g in seq if g not in ignored])
    included = [n for n in genome if not (consumer_ignores and n in ignored)]
    if any(g not in included for g in seq):
        return "must-raise", None
    idx = [included.index(g) for g in seq]
    if idx != sorted(idx) or len(set(idx)) != len(idx):
        return "must-raise", None
    return ("either" if straddles_ignored else "ok"), included


def classify(case):
    v, inc = verdict(case)
    genome = [n for n, _ in case["genome"]]
    ignored = set(case.get("ignored", []))
    cl = [case["consumer"]]
    seq = case["groups"]
    if v == "either":
        cl.append("in-order-once-ignored-rows-are-left-out")
    if v in ("ok", "either"):
        cl.append("in-order")
        if any(n not in seq for n in inc):
            cl.append("contig-without-data")
    known = [g for g in seq if g in genome and g not in ignored]
    idx = [genome.index(g) for g in known]
    if idx != sorted(idx):
        cl.append("misordered")
        if len(idx) >= 2 and idx[-1] < max(idx[:-1]):
            cl.append("last-group-misplaced")
    if any(seq[i] == seq[j] for i in range(len(seq)) for j in range(i + 2, len(seq))):
        cl.append("contig-comes-back-after-another")
        if seq[0] == seq[-1]:
            cl.append("first-and-last-entry-on-the-same-contig")
    if any(g not in genome for g in seq):
        cl.append("unknown-name")
    if any(g in ignored for g in seq):
        cl.append("ignored-name")
    if max(case["sizes"]) >= 31:
        cl.append("long-groups")
    if case.get("text_key") and case["consumer"] in ("iter", "multistream"):
        cl.append("text-typed-contig-column")
    if case["consumer"] == "compute-joint" and v in ("ok", "either"):
        kept_names = [n for n in genome if n not in ignored]
        comp = {n for i, n in enumerate(kept_names) if (case.get("other_mask", 1) >> i) & 1} or {kept_names[0]}
        if any((n in comp) != (n in seq) for n in kept_names[1:]):
            cl.append("joint-evaluation-one-dataset-empty-on-a-contig")
    if any("_" in g and g in genome and g not in ignored for g in seq):
        cl.append("kept-underscore-name")
    n_entries = sum(case["sizes"][i % len(case["sizes"])] for i in range(len(seq)))
    bounds = list(itertools.accumulate(case["sizes"][i % len(case["sizes"])] for i in range(len(seq))))
    if any(c not in bounds and 0 < c < n_entries for c in case["cuts"]):
        cl.append("cut-inside-group")
    nontrivial = v == "must-raise" or "ignored-name" in cl or "contig-without-data" in cl
    return nontrivial, cl


def build_entries(case):
    rows = []
    sizes = dict(case["genome"])
    for gi, g in enumerate(case["groups"]):
        k = case["sizes"][gi % len(case["sizes"])]
        size = sizes.get(g, 5)
        for j in range(k):
            a = (gi * 2 + j) % max(1, size - 1)
            rows.append((g, a, min(size, a + 1 + j)))
    return rows


def check(case, stats=None):
    import numpy as np
    import bionumpy as bnp
    from bionumpy.datatypes import Interval, BedGraph
    from bionumpy.streams import NpDataclassStream, MultiStream
    from bionumpy.genomic_data.genome_context import GenomeContext
    want, included = verdict(case)
    rows = build_entries(case)
    sizes = dict(case["genome"])
    ignored = list(case.get("ignored", []))
    consumer = case["consumer"]
    if not rows:
        return []
    table = Interval([r[0] for r in rows], np.array([r[1] for r in rows], dtype=int), np.array([r[2] for r in rows], dtype=int))
    pts = [0] + sorted(set(c for c in case["cuts"] if 0 < c < len(rows))) + [len(rows)]

    text_key = bool(case.get("text_key")) and consumer in ("iter", "multistream")
    if text_key:
        # the same entries in a table whose contig column is a text-typed (ragged) field; chunks are built fresh from lists,
        # the way a file reader hands them out
        from bionumpy.bnpdataclass import bnpdataclass

        @bnpdataclass
        class TextInterval:
            chromosome: str
            start: int
            stop: int

    def stream(t=table, dc=Interval):
        if text_key:
            return NpDataclassStream(iter([TextInterval([r[0] for r in rows[a:b]], np.array([r[1] for r in rows[a:b]], dtype=int),
                                                        np.array([r[2] for r in rows[a:b]], dtype=int)) for a, b in zip(pts[:-1], pts[1:])]),
                                     dataclass=TextInterval)
        return NpDataclassStream(iter([t[a:b] for a, b in zip(pts[:-1], pts[1:])]), dataclass=dc)

    def genome():
        ctx = GenomeContext({n: s for n, s in case["genome"]}, set(ignored))
        return bnp.Genome(ctx)

    seen = None     # contig -> list of (start, stop) actually delivered, when the consumer exposes them
    try:
        if consumer == "iter":
            g = genome()
            out = list(g._genome_context.iter_chromosomes(stream(), TextInterval if text_key else Interval))
            names = list(g._genome_context.chrom_sizes)
            if len(out) != len(names):
                return [Failure("C12:iter-wrong-number-of-contigs", {"expected": names, "n_items": len(out)})]
            seen = {n: list(zip(t.start.tolist(), t.stop.tolist())) for n, t in zip(names, out)}
            for n, t in zip(names, out):
                if len(t) and set(t.chromosome.tolist()) != {n}:
                    return [Failure("C12:entries-under-wrong-contig", {"contig": n, "carries": sorted(set(t.chromosome.tolist()))})]
        elif consumer in ("pileup", "mask-sum", "compute"):
            gi = genome().get_intervals(stream())
            if consumer == "pileup":
                data = bnp.compute(gi.get_pileup().get_data())
                total = int(sum((e - s) * v for s, e, v in zip(data.start.tolist(), data.stop.tolist(), np.asarray(data.value).tolist())))
                seen_total = total
            elif consumer == "mask-sum":
                seen_total = int(bnp.compute(gi.get_mask().sum()))
            else:
                full = gi.compute()
                d = full.get_data()
                seen = {}
                for c, s, e in zip(_names(d.chromosome), d.start.tolist(), d.stop.tolist()):
                    seen.setdefault(c, []).append((s, e))
        elif consumer == "compute-joint":
            # two streamed datasets synchronised with the same genome and evaluated in one compute call; the companion has an entry on the
            # contigs its mask names (so there are contigs where one of the two has data and the other has none), and is listed first or second
            g = genome()
            kept_names = [n for n, _ in case["genome"] if n not in ignored]
            mask = case.get("other_mask", 1)
            comp = [(n, 0, 1) for i, n in enumerate(kept_names) if (mask >> i) & 1] or [(kept_names[0], 0, 1)]
            comp_t = Interval([r[0] for r in comp], np.array([r[1] for r in comp], dtype=int), np.array([r[2] for r in comp], dtype=int))
            comp_cut = case.get("other_cut", 0) % len(comp)
            comp_chunks = [comp_t[:comp_cut], comp_t[comp_cut:]] if comp_cut else [comp_t]
            gc = g.get_intervals(NpDataclassStream(iter(comp_chunks), dataclass=Interval))
            gm = g.get_intervals(stream())
            nodes = {"c_chrom": gc.chromosome, "c_start": gc.start, "c_stop": gc.stop, "m_chrom": gm.chromosome, "m_start": gm.start, "m_stop": gm.stop}
            if not case.get("other_first", True):
                nodes = dict(reversed(list(nodes.items())))
            res = bnp.compute(nodes)
            seen = {}
            for c, s_, e_ in zip(_names(res["m_chrom"]), np.asarray(res["m_start"]).tolist(), np.asarray(res["m_stop"]).tolist()):
                seen.setdefault(c, []).append((s_, e_))
            got_comp = list(zip(_names(res["c_chrom"]), np.asarray(res["c_start"]).tolist(), np.asarray(res["c_stop"]).tolist()))
            if want in ("ok", "either") and got_comp != comp:
                return [Failure("C12:contig-entries-differ:compute-joint", {"dataset": "companion", "expected": comp, "actual": got_comp, "groups": case["groups"]})]
        elif consumer == "track":
            bg = BedGraph([r[0] for r in rows], np.array([r[1] for r in rows], dtype=int), np.array([r[1] + 1 for r in rows], dtype=int),
                          np.array([1 + i for i in range(len(rows))], dtype=int))
            # records of one contig must not overlap for a bedGraph: keep one record per group
            keep = [i for i, r in enumerate(rows) if i == 0 or rows[i - 1][0] != r[0]]
            bg = bg[np.array(keep, dtype=int)]
            kept_values = [int(v) for c, v in zip(bg.chromosome.tolist(), np.asarray(bg.value).tolist()) if c not in ignored]
            cuts2 = [0] + [c for c in sorted(set(case["cuts"])) if 0 < c < len(bg)] + [len(bg)]
            st_ = NpDataclassStream(iter([bg[a:b] for a, b in zip(cuts2[:-1], cuts2[1:])]), dataclass=BedGraph)
            data = bnp.compute(genome().get_track(st_).get_data())
            got_total = int(sum(v * (e - s) for s, e, v in zip(data.start.tolist(), data.stop.tolist(), np.asarray(data.value).tolist())))
            want_total = sum(kept_values)
            if want in ("ok", "either") and got_total != want_total:
                return [Failure("C12:track-values-lost", {"expected_total": want_total, "actual_total": got_total, "groups": case["groups"]})]
            if want == "must-raise":
                return [Failure(f"C12:not-reported:{consumer}", {"groups": case["groups"], "genome": case["genome"], "ignored": ignored,
                                                                 "values_lost": want_total - got_total})]
            return []
        elif consumer == "multistream":
            ms = MultiStream({n: s for n, s in case["genome"]}, a=stream())
            names = [n for n, _ in case["genome"]]
            out = [t for t, _ in zip(ms.a, ms.lengths)]
            seen = {n: list(zip(t.start.tolist(), t.stop.tolist())) for n, t in zip(names, out)}
            if len(out) != len(names):
                return [Failure("C12:multistream-wrong-number-of-contigs", {"expected": names, "n_items": len(out)})]
        elif consumer == "left-join":
            # the join of the contig list with the grouped stream, as the streamed pileup uses it
            from bionumpy.streams.left_join import left_join
            names = [n for n, _ in case["genome"]]
            out = list(left_join(iter([(n, s) for n, s in case["genome"]]), iter(bnp.groupby(stream(), "chromosome"))))
            if [o[0] for o in out] != names:
                return [Failure("C12:left-join-wrong-contigs", {"expected": names, "actual": [o[0] for o in out]})]
            seen = {n: ([] if t is None else list(zip(t.start.tolist(), t.stop.tolist()))) for n, _, t in out}
            for n, _, t in out:
                if t is not None and len(t) and set(t.chromosome.tolist()) != {n}:
                    return [Failure("C12:entries-under-wrong-contig", {"contig": n, "carries": sorted(set(t.chromosome.tolist()))})]
        elif consumer == "forbes-jaccard":
            from bionumpy.arithmetics import forbes, jaccard
            names = [n for n, _ in case["genome"]]
            first = [(n, 0, max(1, sizes[n] // 2)) for n in names]
            ta = Interval([r[0] for r in first], np.array([r[1] for r in first], dtype=int), np.array([r[2] for r in first], dtype=int))
            # one merged interval per group so that each set is internally non-overlapping
            gb = []
            for g, grp in itertools.groupby(rows, key=lambda r: r[0]):
                grp = list(grp)
                gb.append((g, min(r[1] for r in grp), max(r[2] for r in grp)))
            tb = Interval([r[0] for r in gb], np.array([r[1] for r in gb], dtype=int), np.array([r[2] for r in gb], dtype=int))
            j = jaccard({n: s for n, s in case["genome"]}, ta, tb)
            if want == "must-raise":
                return [Failure("C12:not-reported:forbes-jaccard", {"groups": case["groups"], "genome": case["genome"], "jaccard": float(j)})]
            inter = union = 0
            for n in names:
                ca = c08.cover([(r[1], r[2]) for r in first if r[0] == n], sizes[n])
                cb = c08.cover([(r[1], r[2]) for r in gb if r[0] == n], sizes[n])
                inter += sum(1 for x, y in zip(ca, cb) if x and y)
                union += sum(1 for x, y in zip(ca, cb) if x or y)
            if union and abs(float(j) - inter / union) > 1e-12:
                return [Failure("C12:jaccard-value", {"expected": inter / union, "actual": float(j), "groups": case["groups"]})]
            return []
    except Exception as e:  # noqa
        if want in ("must-raise", "either"):
            if stats is not None:
                stats.raised_allowed[type(e).__name__] += 1
            return []
        return [Failure(f"C12:raised-on-valid-order:{consumer}:{type(e).__name__}:{_where(e)}", {"error": repr(e)[:300] + " / " + repr(e.__cause__)[:200],
                                                                                                  "groups": case["groups"], "genome": case["genome"], "ignored": ignored})]
    # the evaluation completed
    consumer_ignores = consumer not in ("multistream", "forbes-jaccard", "left-join")
    kept = [r for r in rows if not (consumer_ignores and r[0] in ignored)]
    if want == "must-raise":
        lost = None
        if seen is not None:
            delivered = sum(len(v) for v in seen.values())
            lost = len(kept) - delivered
        return [Failure(f"C12:not-reported:{consumer}", {"groups": case["groups"], "genome": case["genome"], "ignored": ignored, "entries_lost": lost})]
    if seen is not None:
        for n in included:
            exp = [(a, b) for c, a, b in kept if c == n]
            if seen.get(n, []) != exp:
                return [Failure(f"C12:contig-entries-differ:{consumer}", {"contig": n, "expected": exp, "actual": seen.get(n, []), "groups": case["groups"]})]
    else:
        per = {n: [(a, b) for c, a, b in kept if c == n] for n in included}
        if consumer == "pileup":
            exp = sum(sum(c08.cover(per[n], sizes[n])) for n in included)
        else:
            exp = sum(sum(1 for v in c08.cover(per[n], sizes[n]) if v) for n in included)
        if seen_total != exp:
            return [Failure(f"C12:coverage-differs:{consumer}", {"expected": exp, "actual": seen_total, "groups": case["groups"]})]
    return []


def _names(chrom_col):
    enc = getattr(chrom_col, "encoding", None)
    if enc is not None and hasattr(enc, "get_labels"):
        import numpy as np
        labels = enc.get_labels()
        return [labels[int(i)] for i in np.atleast_1d(chrom_col.raw()).tolist()]
    return chrom_col.tolist()


# ---------------------------------------------------------------------------------------

def group_sequences(labels):
    for k in range(1, len(labels) + 1):
        for sub in itertools.permutations(labels, k):
            yield list(sub)
            # a contig that comes back after another one (the first and the last entry of the data then carry the same name)
            if 2 <= k <= 3:
                yield list(sub) + [sub[0]]
                if k == 3:
                    yield list(sub) + [sub[1]]


def core_cases(n_contigs, stride=1, offset=0):
    base = [["chr1", 6], ["chr2", 5], ["chr3", 7], ["chr4", 4]][:n_contigs]
    # the ignored contig sits in the middle of the genome listing
    genome = base[:1] + [["chrU_ign", 5]] + base[1:]
    labels = [n for n, _ in base] + ["chrU_ign", "unknown9"]
    cnt = 0
    for seq in group_sequences(labels):
        n_entries = None
        for ci, cuts_kind in enumerate(("none", "between", "inside", "all")):
            for consumer in CONSUMERS:
                cnt += 1
                if (cnt + offset) % stride:
                    continue
                sizes = [2, 1, 2]
                n_entries = sum(sizes[i % 3] for i in range(len(seq)))
                bounds = list(itertools.accumulate(sizes[i % 3] for i in range(len(seq))))
                if cuts_kind == "none":
                    cuts = []
                elif cuts_kind == "between":
                    cuts = bounds[:-1]
                elif cuts_kind == "inside":
                    cuts = [b - 1 for b in bounds if b - 1 not in bounds and b - 1 > 0]
                else:
                    cuts = list(range(1, n_entries))
                case = {"genome": genome, "ignored": ["chrU_ign"], "groups": seq, "sizes": sizes, "cuts": cuts, "consumer": consumer}
                if consumer == "compute-joint":
                    case.update(other_mask=1 + (cnt // len(CONSUMERS)) % (2 ** n_contigs - 1), other_first=bool((cnt // 7) % 2), other_cut=(cnt // 11) % 3)
                yield case


def task_core(stats, known_open, n_contigs, stride=1, offset=0):
    import sys
    core.run_enumeration(sys.modules[__name__], core_cases(n_contigs, stride, offset), stats, known_open, name=f"group-sequences:{n_contigs}+ignored+unknown")


@st.composite
def sampled_case(draw):
    n = draw(st.integers(1, 4))
    base = [["chr1", 6], ["chr10", 5], ["chr2", 7], ["chrX", 4]][:n]
    genome = list(base)
    ignored = []
    if draw(st.booleans()):
        pos = draw(st.integers(0, n))
        genome.insert(pos, ["chr1_alt", 5])
        # a name with an underscore is ignored by the default filter, and an ordinary contig under keep_all
        ignored = ["chr1_alt"] if draw(st.booleans()) else []
    labels = [g[0] for g in genome] + ["nowhere"]
    in_order = [g[0] for g in genome]
    mode = draw(st.sampled_from(["ok", "ok", "swap", "any"]))
    if mode == "ok":
        seq = [x for x in in_order if draw(st.booleans())] or in_order[:1]
    elif mode == "swap":
        seq = [x for x in in_order if draw(st.integers(0, 3))]
        if len(seq) >= 2:
            i = draw(st.integers(0, len(seq) - 2))
            seq[i], seq[i + 1] = seq[i + 1], seq[i]
        seq = seq or in_order[:1]
    else:
        seq = draw(st.lists(st.sampled_from(labels), min_size=1, max_size=len(labels), unique=True))
    if len(seq) >= 2 and draw(st.integers(0, 4)) == 0:
        seq = seq + [seq[draw(st.integers(0, len(seq) - 2))]]          # a contig that comes back after another one
    if draw(st.integers(0, 3)) == 0:
        # long groups whose boundaries fall on and next to powers of two (block-wise shortcuts in grouping code work at such strides)
        sizes = draw(st.lists(st.sampled_from([1, 2, 31, 32, 33, 63, 64, 65, 127, 128, 129, 150, 192, 200, 256, 257]), min_size=1, max_size=4))
    else:
        sizes = draw(st.lists(st.integers(1, 3), min_size=1, max_size=4))
    n_entries = sum(sizes[i % len(sizes)] for i in range(len(seq)))
    cuts = draw(st.one_of(st.just([]), st.lists(st.integers(1, max(1, n_entries)), max_size=6)))
    case = {"genome": genome, "ignored": ignored, "groups": seq, "sizes": sizes, "cuts": cuts, "consumer": draw(st.sampled_from(CONSUMERS + ["compute-joint"])),
            "text_key": draw(st.booleans())}
    if case["consumer"] == "compute-joint":
        case.update(other_mask=draw(st.integers(1, 31)), other_first=draw(st.booleans()), other_cut=draw(st.integers(0, 3)))
    return case


def task_sampled(stats, known_open, n, seed):
    import sys
    core.run_hypothesis(sys.modules[__name__], sampled_case(), stats, known_open, max_examples=n, seed=seed)


def tasks(tier, seed):
    out = []
    if tier == "quick":
        for o in range(8):
            out.append(("task_core", dict(n_contigs=3, stride=8, offset=o)))
        for j in range(4):
            out.append(("task_sampled", dict(n=150, seed=seed * 100 + j)))
    else:
        for o in range(16):
            out.append(("task_core", dict(n_contigs=4, stride=16, offset=o)))
        for j in range(32):
            out.append(("task_sampled", dict(n=1500, seed=seed * 100 + j)))
    return out
