"""C06  Alphabet encodings accept exactly their alphabet and never change the text."""
import itertools
import string

from hypothesis import strategies as st

from pbt import core
from pbt.core import Failure

ID = "C06"
RULE = ("(a) exhaustive: every byte 0..255 as a one-character input (as str where ASCII, and as a base-encoded array) for each predefined "
        "alphabet encoding (ACGT, ACTG, ACGTn, ACTGn, ACUG, amino acids, BAM 4-bit, CIGAR operations, strand, digits); "
        "(b) Hypothesis: strings and lists of strings over each alphabet in mixed case with one foreign character inserted at every position in "
        "turn (for lists also characters beyond one byte whose low byte is a member, e.g. U+0141), passed as str, list, base-encoded EncodedArray and base-encoded EncodedRaggedArray (empty rows included), plus StringEncoding "
        "label lists with one foreign label; (c) every ordered pair of alphabets x strings over the source alphabet for "
        "as_encoded_array(x, target) and change_encoding(x, target), on contiguous arrays and on row-reordered views; (d) histories of 2..6 "
        "re-targetings in one process between alphabets that share a leading prefix (alphabets made for the case, and the predefined DNA/RNA ones), "
        "interleaved with encodes of a few recurring plain strings whose returned arrays the caller then assigns into, "
        "so that what an earlier call leaves behind cannot change a later call; (e) Python lists of 1..5 rows that are already encoded, each row with "
        "an alphabet of a small group (same letters in another order, or one extending another; or the offset encodings for qualities, digits and CIGAR lengths), "
        "handed to as_encoded_array with and without a target, or wrapped again with EncodedArray(row, target); "
        "(f) every short k-mer over alphabets of 2, 3, 4, 5, 9 and 21 letters encoded as one code (KmerEncoding) and read back as text, and arrays of k-mers over "
        "two alphabets meeting in as_encoded_array of a list, np.concatenate or item assignment. "
        "Oracle: a Python model of each alphabet (a character is accepted iff its upper-case form, for letters only, is a member). Accepted "
        "input decodes to the upper-cased original row for row with the ragged shape unchanged; rejected input raises EncodingError; "
        "re-targeting yields data whose text equals the source text or raises. "
        "Non-trivial: a case with a character outside the alphabet, or a pair of distinct alphabets.")
ASSUMPTIONS = [
    "Non-ASCII characters given as Python str raise UnicodeEncodeError before any alphabet lookup; any exception counts as rejection there, EncodingError is required on the byte-array route.",
    "StringEncoding is checked for membership and round trip only (hash collisions of the 31-bit polynomial hash are outside what random search can reach).",
]
REQUIRED_CLASSES = ["byte-exhaustive", "foreign-char", "mixed-case", "ragged-with-empty-row", "pair-retarget", "pair-change_encoding",
                    "view-input", "string-encoding", "retarget-history", "history-prefix-then-beyond", "history-encode-edit-encode-again", "foreign-char-beyond-one-byte",
                    "list-of-rows-in-several-encodings", "list-of-rows-same-letters-other-order", "list-of-rows-in-one-encoding",
                    "rows-in-offset-encodings", "kmer-of-fewer-than-four-letters", "kmer-of-four-letters", "kmer-of-more-than-four-letters",
                    "kmer-arrays-over-two-alphabets", "text-presented-to-an-encoding-twice", "text-presented-to-an-offset-encoding", "one-row-of-the-text-presented"]
BOUNDS = {"quick": "(a) complete: 256 bytes x 10 encodings x 2 routes; (b) 1500 strings per alphabet; (c) all 90 ordered pairs x 150 strings; (d) 6000 histories; (e) 1500 row lists",
          "thorough": "(a) complete; (b) 15000 per alphabet; (c) all pairs x 1500 strings; (d) 240000 histories; (e) 15000 row lists"}
BUDGET_S = {"quick": 150, "thorough": 900}
ALL_EXHAUSTIVE = False

ALPHABETS = {
    "ACGT": "ACGT", "ACTG": "ACTG", "ACGTn": "ACGTN", "ACTGn": "ACTGN", "ACUG": "ACUG",
    "AminoAcid": "ACDEFGHIKLMNPQRSTVWY*", "Bam": "=ACMGRSVTWYHKDBN", "CigarOp": "MIDNSHP=X", "Strand": "+-.", "Digit": "0123456789",
}


NUMERIC_LETTERS = "0123456789:;<=>?@ABCXYZ"      # characters every offset encoding below can hold (code >= 48)


def enc_of(name):
    from bionumpy.encodings import alphabet_encoding as ae
    if name.startswith("custom:"):
        return ae.AlphabetEncoding(name[len("custom:"):])
    if name.startswith("num:"):
        import bionumpy.encodings as be
        return {"num:quality": be.QualityEncoding, "num:digit": be.DigitEncoding, "num:cigar": be.CigarEncoding}[name]
    return {"ACGT": ae.ACGTEncoding, "ACTG": ae.ACTGEncoding, "ACGTn": ae.ACGTnEncoding, "ACTGn": ae.ACTGnEncoding, "ACUG": ae.ACUGEncoding,
            "AminoAcid": ae.AminoAcidEncoding, "Bam": ae.BamEncoding, "CigarOp": ae.CigarOpEncoding, "Strand": ae.StrandEncoding,
            "Digit": ae.DigitEncoding}[name]


def model_upper(ch):
    return ch.upper() if ch in string.ascii_letters else ch


def letters_of(name):
    if name.startswith("num:"):
        return NUMERIC_LETTERS
    return name[len("custom:"):] if name.startswith("custom:") else ALPHABETS[name]


def model_accepts(alpha, text):
    return all(model_upper(c) in letters_of(alpha) for c in text)


def classify(case):
    kind = case["kind"]
    cl = [kind]
    nontrivial = False
    if kind == "byte":
        cl.append("byte-exhaustive")
        nontrivial = not model_accepts(case["alpha"], chr(case["byte"])) if case["byte"] < 128 else True
    elif kind == "encode":
        rows = case["rows"]
        txt = "".join(rows)
        if not model_accepts(case["alpha"], txt):
            cl.append("foreign-char")
            nontrivial = True
            if any(ord(c_) > 255 for c_ in txt):
                cl.append("foreign-char-beyond-one-byte")
        if any(c.islower() for c in txt) and any(c.isupper() for c in txt):
            cl.append("mixed-case")
        if case["form"] == "ragged" and any(r == "" for r in rows):
            cl.append("ragged-with-empty-row")
        cl.append("form-" + case["form"])
    elif kind == "pair":
        cl.append("pair-" + case["how"])
        nontrivial = case["src"] != case["dst"]
        if case.get("view"):
            cl.append("view-input")
    elif kind == "history":
        cl.append("retarget-history")
        steps = case["steps"]
        nontrivial = len(steps) >= 2
        for i, a in enumerate(steps):
            if a.get("kind") == "encode" and a.get("edit") and any(b.get("kind") == "encode" and b["text"] == a["text"] and b["alpha"] == a["alpha"] for b in steps[i + 1:]):
                cl.append("history-encode-edit-encode-again")
        steps = [s_ for s_ in steps if s_.get("kind") != "encode"]
        # the hazard: a call whose codes all lie in the prefix two alphabets share, followed by one between the same pair that goes beyond it
        for i, a in enumerate(steps):
            for b in steps[i + 1:]:
                if (a["src"], a["dst"]) == (b["src"], b["dst"]) and a["src"] != a["dst"]:
                    A, B = letters_of(a["src"]), letters_of(a["dst"])
                    p = next((k for k, (x, y) in enumerate(zip(A, B)) if x != y), min(len(A), len(B)))
                    inside = lambda st_: all(ch in A[:p] for r in st_["rows"] for ch in r.upper())
                    if inside(a) and not inside(b):
                        cl.append("history-prefix-then-beyond")
    elif kind == "rowlist":
        alphas = {r["alpha"] for r in case["rows"]}
        nontrivial = len(alphas) >= 2
        cl.append("list-of-rows-in-several-encodings" if nontrivial else "list-of-rows-in-one-encoding")
        if nontrivial and len({frozenset(letters_of(a)) for a in alphas}) < len(alphas):
            cl.append("list-of-rows-same-letters-other-order")
        if case["rows"][0]["alpha"].startswith("num:"):
            cl.append("rows-in-offset-encodings")
            nontrivial = nontrivial or bool(case.get("target") and case["target"] != case["rows"][0]["alpha"])
    elif kind == "present":
        cl.append("text-presented-to-an-encoding-" + ("twice" if case["times"] >= 2 else "once"))
        if case["dst"].startswith("num:"):
            cl.append("text-presented-to-an-offset-encoding")
        if case.get("row") is not None:
            cl.append("one-row-of-the-text-presented")
        nontrivial = case["times"] >= 2 or case.get("row") is not None
    elif kind == "kmer-mix":
        nontrivial = len({r["alpha"] for r in case["rows"]}) == 2
        cl.append("kmer-arrays-over-two-alphabets" if nontrivial else "kmer-arrays-over-one-alphabet")
    elif kind == "kmer":
        cl.append("kmer-of-" + ("fewer-than-four" if len(letters_of(case["alpha"])) < 4 else ("four" if len(letters_of(case["alpha"])) == 4 else "more-than-four")) + "-letters")
        nontrivial = len(set(case["text"])) >= 2
    elif kind == "labels":
        cl.append("string-encoding")
        nontrivial = any(x not in case["labels"] for x in case["query"])
    return nontrivial, cl


def _decode_rows(x):
    from bionumpy.encoded_array import EncodedRaggedArray
    try:
        if isinstance(x, EncodedRaggedArray):
            return x.tolist()
        return x.to_string()
    except Exception as e:  # an encoded array that cannot be decoded is itself a wrong result
        return f"<decode raised {type(e).__name__}>"


def _check_encode_step(step, bucket_suffix=""):
    """Encode a plain string (or a one-row list); the result must decode to the upper-cased text. Afterwards the caller may assign into
    the array it was given (its own data): that must not change what a later encode of any text returns."""
    from bionumpy.encoded_array import as_encoded_array
    text, alpha = step["text"], step["alpha"]
    enc = enc_of(alpha)
    try:
        r = as_encoded_array(text if step.get("form", "str") == "str" else [text], enc) if step.get("via", "as") == "as" else enc.encode(text)
    except Exception as e:
        return [Failure(f"C06:member-rejected{bucket_suffix}", {"text": text, "alpha": alpha, "error": repr(e)[:200]})]
    got = _decode_rows(r)
    got = got if isinstance(got, str) else "".join(got)
    if got != model_upper_text(text):
        return [Failure(f"C06:decodes-differently{bucket_suffix}", {"text": text, "alpha": alpha, "decoded": got})]
    edit = step.get("edit")
    if edit and len(text) and not isinstance(_decode_rows(r), list):
        i = edit["at"] % len(text)
        try:
            r[i:i + 1] = edit["letter"]
        except Exception:
            pass
    return []


def _check_pair(case, stats=None, bucket_suffix=""):
    import numpy as np
    from bionumpy.encoded_array import change_encoding, as_encoded_array
    src, dst, rows, how = case["src"], case["dst"], case["rows"], case["how"]
    x = as_encoded_array(list(rows) if case["ragged"] else rows[0], enc_of(src))
    text = [r.upper() for r in rows] if case["ragged"] else rows[0].upper()
    if case.get("view") and case["ragged"]:
        order = case["view"]
        idx = [i % len(rows) for i in order]
        x = x[np.array(idx, dtype=int)]
        text = [text[i] for i in idx]
    if src == "Strand" and case["ragged"]:
        text = "".join(text)
    try:
        r = as_encoded_array(x, enc_of(dst)) if how == "retarget" else change_encoding(x, enc_of(dst))
    except Exception:
        if stats is not None:
            stats.raised_allowed[how] += 1
        return []
    got = _decode_rows(r)
    if isinstance(text, str) and not isinstance(got, str):
        got = "".join(got)
    if isinstance(text, list) and isinstance(got, str):
        text = "".join(text)
    if got != text:
        return [Failure(f"C06:{how}-changes-text{bucket_suffix}", {"source_text": text, "result_text": got, "pair": f"{src}->{dst}", "view": case.get("view")})]
    return []


def check(case, stats=None):
    import numpy as np
    import bionumpy as bnp
    from bionumpy.encoded_array import EncodedArray, EncodedRaggedArray, BaseEncoding, change_encoding, as_encoded_array
    from bionumpy.encodings.exceptions import EncodingError
    kind = case["kind"]
    if kind == "byte":
        alpha, b = case["alpha"], case["byte"]
        enc = enc_of(alpha)
        accept = b < 128 and model_accepts(alpha, chr(b))
        out = []
        routes = [("array", lambda: enc.encode(EncodedArray(np.array([b], dtype=np.uint8), BaseEncoding)))]
        if b < 128:
            routes.append(("str", lambda: as_encoded_array(chr(b), enc)))
        for route, fn in routes:
            try:
                r = fn()
            except EncodingError:
                if accept:
                    out.append(Failure(f"C06:member-rejected:{alpha}", {"byte": b, "route": route}))
                continue
            except Exception as e:
                out.append(Failure(f"C06:wrong-exception:{alpha}:{type(e).__name__}", {"byte": b, "route": route, "error": repr(e)[:200]}))
                continue
            if not accept:
                out.append(Failure(f"C06:foreign-accepted:{alpha}", {"byte": b, "char": chr(b), "route": route, "decoded": r.to_string()}))
            elif r.to_string() != model_upper(chr(b)):
                out.append(Failure(f"C06:decodes-differently:{alpha}", {"byte": b, "decoded": r.to_string()}))
        return out
    if kind == "encode":
        alpha, rows, form = case["alpha"], case["rows"], case["form"]
        enc = enc_of(alpha)
        if form == "str":
            arg, want = rows[0], model_upper_text(rows[0])
        elif form == "list":
            arg, want = list(rows), [model_upper_text(r) for r in rows]
        elif form == "array":
            arg, want = as_encoded_array(rows[0]), model_upper_text(rows[0])
        else:
            arg, want = as_encoded_array(list(rows)), [model_upper_text(r) for r in rows]
        accept = model_accepts(alpha, "".join(rows))
        try:
            r = as_encoded_array(arg, enc)
        except EncodingError:
            return [] if not accept else [Failure(f"C06:member-rejected:{alpha}", {"rows": rows, "form": form})]
        except Exception as e:
            if any(ord(c_) > 127 for row_ in rows for c_ in row_):
                # a character that is not even a byte is rejected before any alphabet lookup; any exception counts as rejection
                if stats is not None:
                    stats.raised_allowed["non-byte-character:" + type(e).__name__] += 1
                return []
            return [Failure(f"C06:wrong-exception:{alpha}:{type(e).__name__}", {"rows": rows, "form": form, "error": repr(e)[:200]})]
        if not accept:
            return [Failure(f"C06:foreign-accepted:{alpha}", {"rows": rows, "form": form, "decoded": _decode_rows(r)})]
        got = _decode_rows(r)
        if alpha == "Strand" and isinstance(want, list):
            want = "".join(want)      # the strand encoding is documented as flat
            got = got if isinstance(got, str) else "".join(got)
        if got != want:
            return [Failure(f"C06:decodes-differently:{alpha}", {"rows": rows, "form": form, "decoded": got, "expected": want})]
        if r.encoding != enc:
            return [Failure(f"C06:result-encoding:{alpha}", {"encoding": repr(r.encoding)})]
        return []
    if kind == "pair":
        return _check_pair(case, stats)
    if kind == "history":
        # a sequence of re-targetings in one process: an earlier call must not change what a later call does
        for i, step in enumerate(case["steps"]):
            if step.get("kind") == "encode":
                fails = _check_encode_step(step, "-after-earlier-calls" if i else "")
            else:
                fails = _check_pair(step, stats, bucket_suffix="-after-earlier-calls" if i else "")
            if fails:
                fails[0].detail["step"] = i
                fails[0].detail["earlier_steps"] = [{"pair": f"{s['src']}->{s['dst']}", "rows": s["rows"], "how": s["how"]} for s in case["steps"][:i]]
                return fails
        return []
    if kind == "rowlist":
        # a Python list of rows that are already encoded, each with its own alphabet, handed to as_encoded_array (with or without a target)
        from bionumpy.encoded_array import as_encoded_array
        from bionumpy.encoded_array import change_encoding, EncodedArray
        numeric = case["rows"][0]["alpha"].startswith("num:")
        if numeric:     # rows labelled with an offset encoding (quality, digit, CIGAR length): made from plain text by change_encoding
            arrays = [change_encoding(as_encoded_array(r["text"]), enc_of(r["alpha"])) for r in case["rows"]]
            want = [r["text"] for r in case["rows"]]
        else:
            arrays = [as_encoded_array(r["text"], enc_of(r["alpha"])) for r in case["rows"]]
            want = [r["text"].upper() for r in case["rows"]]
        try:
            if case.get("wrap"):
                # the first row alone, wrapped again with the target encoding
                res = EncodedArray(arrays[0], enc_of(case["target"]))
                want = want[:1]
            else:
                res = as_encoded_array(arrays, enc_of(case["target"])) if case.get("target") else as_encoded_array(arrays)
        except Exception:
            if stats is not None:
                stats.raised_allowed["rowlist"] += 1
            return []
        got = _decode_rows(res)
        if isinstance(got, str):
            got, want = "".join(got), "".join(want)
        if got != want:
            return [Failure("C06:list-of-encoded-rows-changes-text", {"rows": case["rows"], "target": case.get("target"), "result_text": got})]
        return []
    if kind == "present":
        # text that is already held in an (unlabelled, base) encoded array is presented to an encoding, perhaps several times, perhaps one row of
        # it: the letters of the text stay what they were, every presentation gives the same codes, and every result decodes to the text
        import numpy as np
        from bionumpy.encoded_array import as_encoded_array, EncodedArray, BaseEncoding
        rows, dst = case["rows"], enc_of(case["dst"])
        numeric = case["dst"].startswith("num:")
        if case["built"] == "list":
            src = as_encoded_array(list(rows))
        elif case["built"] == "flat":
            src = EncodedArray(np.array([ord(c_) for c_ in "".join(rows)], dtype=np.uint8), BaseEncoding)
        else:
            src = as_encoded_array("".join(rows))
        text = list(rows) if case["built"] == "list" else "".join(rows)
        part, part_text = src, text
        if case.get("row") is not None and case["built"] == "list":
            part, part_text = src[case["row"] % len(rows)], rows[case["row"] % len(rows)]
        results = []
        try:
            for t in range(case["times"]):
                route = case["routes"][t % len(case["routes"])]
                results.append(as_encoded_array(part, dst) if route == "as_encoded_array" else dst.encode(part))
        except Exception:
            if stats is not None:
                stats.raised_allowed["present"] += 1
            results = results
        out = []
        now = _decode_rows(src)
        if now != text:
            out.append(Failure("C06:presenting-text-to-an-encoding-changes-the-text", {"dst": case["dst"], "text": text, "text_afterwards": now, "built": case["built"]}))
        want = part_text if numeric else ([r.upper() for r in part_text] if isinstance(part_text, list) else part_text.upper())
        raws = []
        for r in results:
            got = _decode_rows(r) if hasattr(r, "encoding") else None
            codes = r.raw() if hasattr(r, "raw") else r
            raws.append(np.asarray(codes.ravel() if hasattr(codes, "ravel") else codes).ravel().tolist())
            if got is not None and got != want and "".join(got) != "".join(want):
                out.append(Failure("C06:presented-text-decodes-to-other-text", {"dst": case["dst"], "text": part_text, "decoded": got}))
        if any(x != raws[0] for x in raws[1:]):
            out.append(Failure("C06:same-text-presented-again-gives-other-codes", {"dst": case["dst"], "text": part_text, "codes": raws[:3]}))
        return out[:1]
    if kind == "kmer-mix":
        # arrays of k-mers (same k) over two alphabets meeting in one operation: the words come back as they were, or the operation refuses
        from bionumpy.encodings.kmer_encodings import KmerEncoding
        from bionumpy.encoded_array import as_encoded_array
        k = case["k"]
        arrays = [KmerEncoding(enc_of(r["alpha"]), k).encode(list(r["words"])) for r in case["rows"]]
        want = [w for r in case["rows"] for w in r["words"]]

        def words_of(x):
            from bionumpy.encoded_array import EncodedRaggedArray
            if isinstance(x, EncodedRaggedArray):
                return [w for row in x.tolist() for w in row.split(",") if w]
            return [w for w in x.to_string().split(",") if w]
        try:
            if case["how"] == "list":
                res = as_encoded_array(arrays)
            elif case["how"] == "concat":
                res = np.concatenate(arrays)
            else:
                res = arrays[0].copy()
                m = min(len(arrays[0]), len(arrays[1]))
                res[:m] = arrays[1][:m]
                want = list(case["rows"][1]["words"][:m]) + list(case["rows"][0]["words"][m:])
            got = words_of(res)
        except Exception:
            if stats is not None:
                stats.raised_allowed["kmer-mix"] += 1
            return []
        if got != want:
            return [Failure("C06:kmers-of-two-alphabets-change-text", {"rows": case["rows"], "how": case["how"], "result": got})]
        return []
    if kind == "kmer":
        # one k-mer of an alphabet encoded as a single code and read back as text
        from bionumpy.encodings.kmer_encodings import KmerEncoding
        from bionumpy.encoded_array import as_encoded_array
        text, k = case["text"], len(case["text"])
        ke = KmerEncoding(enc_of(case["alpha"]), k)
        try:
            got = as_encoded_array(text, ke).to_string()
            got2 = ke.to_string(int(np.asarray(ke.encode(text).raw())))
        except Exception as e:
            return [Failure(f"C06:kmer-read-back-raised:{type(e).__name__}", {"alpha": case["alpha"], "text": text, "error": repr(e)[:200]})]
        if got != text.upper() or got2 != text.upper():
            return [Failure("C06:kmer-reads-back-as-other-text", {"alpha": case["alpha"], "text": text, "read_back": got, "to_string_of_code": got2})]
        return []
    if kind == "labels":
        from bionumpy.encodings.string_encodings import StringEncoding
        labels, query = case["labels"], case["query"]
        enc = StringEncoding(labels)
        ok = all(q in labels for q in query)
        try:
            r = enc.encode(list(query))
        except EncodingError:
            return [] if not ok else [Failure("C06:member-rejected:StringEncoding", {"labels": labels, "query": query})]
        except Exception as e:
            return [Failure(f"C06:wrong-exception:StringEncoding:{type(e).__name__}", {"labels": labels, "query": query, "error": repr(e)[:200]})]
        if not ok:
            return [Failure("C06:foreign-accepted:StringEncoding", {"labels": labels, "query": query})]
        got = enc.decode(r).tolist()
        if got != list(query):
            return [Failure("C06:decodes-differently:StringEncoding", {"query": query, "decoded": got})]
        return []
    raise ValueError(kind)


def model_upper_text(t):
    return "".join(model_upper(c) for c in t)


# ---------------------------------------------------------------------------------------

def task_bytes(stats, known_open):
    import sys
    cases = ({"kind": "byte", "alpha": a, "byte": b} for a in ALPHABETS for b in range(256))
    core.run_enumeration(sys.modules[__name__], cases, stats, known_open, name="bytes-0..255-x-10-alphabets")


def mixed_case(alpha_chars):
    chars = "".join(sorted(set(alpha_chars + alpha_chars.lower())))
    return chars


@st.composite
def encode_case(draw, alpha):
    chars = mixed_case(ALPHABETS[alpha])
    form = draw(st.sampled_from(["str", "list", "array", "ragged"]))
    n = 1 if form in ("str", "array") else draw(st.integers(1, 5))
    rows = [draw(st.text(alphabet=chars, min_size=0 if form in ("list", "ragged") else 1, max_size=12)) for _ in range(n)]
    if all(r == "" for r in rows):
        rows[0] = draw(st.text(alphabet=chars, min_size=1, max_size=5))
    if draw(st.booleans()):
        foreign_pool = [c for c in (string.printable[:95] + "\t") if model_upper(c) not in ALPHABETS[alpha]]
        # characters 32 above a non-letter member are the historically dangerous ones
        near = [chr(ord(c) + 32) for c in ALPHABETS[alpha] if c not in string.ascii_letters and ord(c) + 32 < 127]
        near += [chr(ord(c) - 32) for c in ALPHABETS[alpha] if c not in string.ascii_letters and ord(c) - 32 > 32]
        # characters beyond one byte whose low byte is a member of the alphabet (U+0141 -> 0x41 'A'): only a list of strings can
        # carry them past the ASCII conversion of a plain str, and they must be rejected like any other foreign character
        wide = [chr(256 * k + ord(c)) for c in (ALPHABETS[alpha] + ALPHABETS[alpha].lower()) for k in (1, 3)] if form in ("list",) else []
        ch = draw(st.sampled_from(foreign_pool + [c for c in near if model_upper(c) not in ALPHABETS[alpha]] * 3 + wide * 2))
        i = draw(st.integers(0, n - 1))
        p = draw(st.integers(0, len(rows[i])))
        rows[i] = rows[i][:p] + ch + rows[i][p:]
    return {"kind": "encode", "alpha": alpha, "rows": rows, "form": form}


@st.composite
def pair_case(draw, src, dst):
    chars = ALPHABETS[src]
    ragged = draw(st.booleans())
    n = draw(st.integers(1, 5)) if ragged else 1
    # prefixes of the alphabet matter: the re-targeting shortcut compares alphabet prefixes up to the largest code present
    k = draw(st.integers(1, len(chars)))
    rows = [draw(st.text(alphabet=chars[:k], min_size=0 if ragged else 1, max_size=10)) for _ in range(n)]
    if all(r == "" for r in rows):
        rows[0] = chars[k - 1]
    case = {"kind": "pair", "src": src, "dst": dst, "rows": rows, "ragged": ragged, "how": draw(st.sampled_from(["retarget", "change_encoding"]))}
    if ragged and draw(st.booleans()):
        case["view"] = draw(st.lists(st.integers(0, 9), min_size=1, max_size=6))
    return case


ROWLIST_GROUPS = [["ACGT", "ACTG", "ACGTn", "ACTGn", "ACUG"], ["ACGT", "ACTG", "AminoAcid", "Bam"], ["custom:XYZ", "custom:ZYX", "custom:XYZW", "custom:YXZ"],
                  ["num:quality", "num:digit", "num:cigar"]]


@st.composite
def rowlist_case(draw):
    """1..5 rows, each encoded with an alphabet of a small group (alphabets with the same letters in another order, or one extending another),
    over letters that every alphabet of the group has."""
    group = draw(st.sampled_from(ROWLIST_GROUPS))
    common = sorted(set.intersection(*[set(letters_of(a)) for a in group]))
    n = draw(st.integers(1, 5))
    one = draw(st.integers(0, 3)) == 0
    a0 = draw(st.sampled_from(group))
    rows = []
    for _ in range(n):
        alpha = a0 if one else draw(st.sampled_from(group))
        letters = common if draw(st.booleans()) else letters_of(alpha)
        rows.append({"text": draw(st.text(alphabet=letters, min_size=0, max_size=8)), "alpha": alpha})
    if all(r["text"] == "" for r in rows):
        rows[0]["text"] = common[-1] * 2
    case = {"kind": "rowlist", "rows": rows}
    if draw(st.booleans()):
        case["target"] = draw(st.sampled_from(group))
        if draw(st.integers(0, 3)) == 0 and rows[0]["text"]:
            case["wrap"] = True
    return case


@st.composite
def history_case(draw):
    """2..6 re-targetings in a row between a few alphabets that share a leading prefix. Half of the cases use alphabets made for the case
    (so the state left by other cases in the same worker process does not matter), half use the predefined DNA/RNA encodings."""
    if draw(st.booleans()):
        k = draw(st.integers(3, 6))
        base = draw(st.permutations(list("ACGTNUXYZW")).map(lambda p: "".join(p[:k])))
        p = draw(st.integers(0, k - 2))
        tail = draw(st.permutations(list(base[p:])).map("".join))
        names = ["custom:" + base, "custom:" + base[:p] + tail]
        if draw(st.booleans()):
            names.append("custom:" + draw(st.permutations(list(base)).map("".join)))
    else:
        names = draw(st.lists(st.sampled_from(["ACGT", "ACTG", "ACGTn", "ACTGn", "ACUG"]), min_size=2, max_size=3, unique=True))
    steps = []
    pool = [draw(st.text(alphabet=letters_of(names[0]), min_size=1, max_size=draw(st.sampled_from([1, 4, 16, 20])))) for _ in range(2)]
    for _ in range(draw(st.integers(2, 6))):
        if draw(st.integers(0, 2)) == 0:
            # encode one of a few texts (so the same text recurs), sometimes followed by an in-place edit of the returned array
            text = draw(st.sampled_from(pool))
            step = {"kind": "encode", "text": text, "alpha": names[0], "form": draw(st.sampled_from(["str", "str", "list"])),
                    "via": draw(st.sampled_from(["as", "encode"]))}
            if step["form"] == "list":
                step["via"] = "as"
            if draw(st.booleans()):
                step["edit"] = {"at": draw(st.integers(0, 20)), "letter": draw(st.sampled_from(letters_of(names[0])))}
            steps.append(step)
            continue
        src, dst = draw(st.sampled_from(names)), draw(st.sampled_from(names))
        chars = letters_of(src)
        m = draw(st.integers(1, len(chars)))
        ragged = draw(st.booleans())
        rows = [draw(st.text(alphabet=chars[:m], min_size=1, max_size=6)) for _ in range(draw(st.integers(1, 3)) if ragged else 1)]
        steps.append({"src": src, "dst": dst, "rows": rows, "ragged": ragged, "how": draw(st.sampled_from(["retarget", "retarget", "change_encoding"]))})
    return {"kind": "history", "steps": steps}


@st.composite
def labels_case(draw):
    labels = draw(st.lists(st.text(alphabet="chrXY_0123456789ab", min_size=1, max_size=8), min_size=1, max_size=8, unique=True))
    query = draw(st.lists(st.sampled_from(labels), min_size=1, max_size=6))
    if draw(st.booleans()):
        extra = draw(st.one_of(st.text(alphabet="chrXY_0123456789ab", min_size=1, max_size=8),
                               st.sampled_from(labels).map(lambda s: s + "0"), st.sampled_from(labels).map(lambda s: s[:-1] or "z")))
        query.insert(draw(st.integers(0, len(query))), extra)
    return {"kind": "labels", "labels": labels, "query": query}


@st.composite
def present_case(draw):
    dst = draw(st.sampled_from(list(ALPHABETS) + ["num:quality", "num:digit", "num:cigar"] * 3))
    chars = NUMERIC_LETTERS if dst.startswith("num:") else mixed_case(ALPHABETS[dst])
    built = draw(st.sampled_from(["list", "list", "flat", "str"]))
    rows = [draw(st.text(alphabet=chars, min_size=0 if built == "list" else 1, max_size=8)) for _ in range(draw(st.integers(1, 4)))]
    if all(r == "" for r in rows):
        rows[0] = chars[0]
    case = {"kind": "present", "dst": dst, "rows": rows, "built": built, "times": draw(st.integers(1, 3)),
            "routes": draw(st.lists(st.sampled_from(["as_encoded_array", "encode"]), min_size=1, max_size=3))}
    if built == "list" and draw(st.booleans()):
        case["row"] = draw(st.integers(0, 3))
    return case


def task_present(stats, known_open, n, seed):
    import sys
    core.run_hypothesis(sys.modules[__name__], present_case(), stats, known_open, max_examples=n, seed=seed)


def task_encode(stats, known_open, alpha, n, seed):
    import sys
    core.run_hypothesis(sys.modules[__name__], encode_case(alpha), stats, known_open, max_examples=n, seed=seed)


def task_pairs(stats, known_open, src, n, seed):
    import sys
    for j, dst in enumerate(ALPHABETS):
        if dst != src:
            core.run_hypothesis(sys.modules[__name__], pair_case(src, dst), stats, known_open, max_examples=n, seed=seed * 100 + j)


def task_history(stats, known_open, n, seed):
    import sys
    core.run_hypothesis(sys.modules[__name__], history_case(), stats, known_open, max_examples=n, seed=seed)


KMER_ALPHABETS = ["Strand", "custom:AB", "custom:XYZ", "ACGT", "ACTG", "ACGTn", "AminoAcid", "CigarOp"]


def task_kmers(stats, known_open):
    """Every k-mer with k <= 3 (k <= 2 for the large alphabets) over each alphabet, and every k-mer of k = 4..6 over the alphabets of up to 3 letters."""
    import sys

    def cases():
        for a in KMER_ALPHABETS:
            letters = letters_of(a)
            for k in range(1, 7):
                if len(letters) ** k > 800:
                    break
                for t in itertools.product(letters, repeat=k):
                    yield {"kind": "kmer", "alpha": a, "text": "".join(t)}
    core.run_enumeration(sys.modules[__name__], cases(), stats, known_open, name="k-mers-read-back")


@st.composite
def kmer_mix_case(draw):
    group = draw(st.sampled_from([["ACGT", "ACTG", "ACUG"], ["custom:XYZ", "custom:ZYX", "custom:XYZW"], ["Strand", "custom:-+."]]))
    k = draw(st.integers(1, 4))
    common = sorted(set.intersection(*[set(letters_of(a)) for a in group]))
    rows = []
    a0 = draw(st.sampled_from(group))
    for i in range(2):
        alpha = a0 if (i == 1 and draw(st.integers(0, 4)) == 0) else draw(st.sampled_from(group))
        words = draw(st.lists(st.text(alphabet=common, min_size=k, max_size=k), min_size=1, max_size=5))
        rows.append({"alpha": alpha, "words": words})
    return {"kind": "kmer-mix", "k": k, "rows": rows, "how": draw(st.sampled_from(["list", "concat", "setitem"]))}


def task_kmer_mix(stats, known_open, n, seed):
    import sys
    core.run_hypothesis(sys.modules[__name__], kmer_mix_case(), stats, known_open, max_examples=n, seed=seed)


def task_rowlist(stats, known_open, n, seed):
    import sys
    core.run_hypothesis(sys.modules[__name__], rowlist_case(), stats, known_open, max_examples=n, seed=seed)


def task_labels(stats, known_open, n, seed):
    import sys
    core.run_hypothesis(sys.modules[__name__], labels_case(), stats, known_open, max_examples=n, seed=seed)


def tasks(tier, seed):
    n_enc, n_pair = (1500, 150) if tier == "quick" else (15000, 1500)
    out = [("task_bytes", {}), ("task_kmers", {})]
    for i, a in enumerate(ALPHABETS):
        out.append(("task_encode", dict(alpha=a, n=n_enc, seed=seed * 1000 + i)))
        out.append(("task_pairs", dict(src=a, n=n_pair, seed=seed * 1000 + 100 + i)))
    out.append(("task_labels", dict(n=n_enc, seed=seed * 1000 + 999)))
    out.append(("task_rowlist", dict(n=n_enc, seed=seed * 1000 + 998)))
    out.append(("task_kmer_mix", dict(n=n_enc, seed=seed * 1000 + 997)))
    out.append(("task_present", dict(n=n_enc, seed=seed * 1000 + 996)))
    for j in range(4 if tier == "quick" else 16):
        out.append(("task_history", dict(n=n_enc, seed=seed * 1000 + 800 + j)))
    return out
