"""C03  Write then read returns the same table; writing is canonical and composable."""
import gzip
import os
import tempfile
import traceback

from hypothesis import strategies as st

from pbt import core, formats, strategies as S
from pbt.core import Failure

ID = "C03"
RULE = ("Tables of 0..N rows built from generated Python values for Interval, Bed6, Bed12, BedGraph, NarrowPeak, ChromosomeSize, VCF with a genotype matrix (codes computed from the genotype texts), SequenceEntry "
        "(wrapped FASTA with sequence lengths around multiples of 80, and two-line FASTA), SequenceEntryWithQuality, SAMEntry, GTFEntry, "
        "PairsEntry and VCFWithInfoAsStringEntry; integers over the int64 range with emphasis near powers of ten, finite floats, identifier "
        "character set, empty optional fields. A writing plan splits the rows into pieces (zero-length pieces included) and writes them as "
        "successive write calls, as a stream of chunks, or in successive append sessions, to a plain or gzip target, through bnp.open on real "
        "files. In a third of the cases the pieces are not built from values but are slices (optionally thinned by a boolean mask) of the lazily "
        "re-read single-write file, written piecewise or as one np.concatenate of the pieces. Oracles: (a) the body written by a single write equals an independent canonical serializer (tab-separated, str(int), "
        "str(float), FASTA wrapped at 80, four-line FASTQ, VCF POS+1); (b) reading the file back eagerly and lazily gives the input rows "
        "(floats within 8 ulp); (c) the decompressed content of the plan equals the single write byte for byte, header lines once and first. "
        "Non-trivial: >= 2 rows of different serialized length, and for (c) >= 2 write operations.")
ASSUMPTIONS = [
    "Header lines produced for a constructed table are whatever the single write emits before the first record; they must be comment lines and appear exactly once in every plan.",
    "Wrapped FASTA sequences are non-empty (the writer asserts on empty sequences).",
    "Floats are compared within 8 ulp after the round trip (the parser is not correctly rounded, see C18).",
]
REQUIRED_CLASSES = ["seq-len-79-81", "seq-len-159-161", "negative-int", "one-char-field", "append", "gzip", "stream", "empty-piece-between",
                    "empty-piece-first", "int-near-power-of-ten", "empty-table", "pieces-from-reread", "pieces-from-reread-thinned", "concat-of-reread-pieces",
                    "pieces-sliced-from-the-table-already-written", "sequence-column-in-dna-encoding", "table-written-is-a-row-selection",
                    "pieces-are-the-chunks-of-one-reader-a-column-assigned-on-every-second"]
BOUNDS = {"quick": "150 (table, plan) pairs for each of 17 table types, up to 8 rows", "thorough": "3000 per type, up to 40 rows"}
BUDGET_S = {"quick": 200, "thorough": 1500}

# type tag -> (dataclass path, buffer path, suffix, [(field, kind), ...])
TYPES = {
    "interval": ("bionumpy.datatypes.Interval", "bionumpy.io.delimited_buffers.BedBuffer", ".bed",
                 [("chromosome", "id"), ("start", "int"), ("stop", "int")]),
    "bed6": ("bionumpy.datatypes.Bed6", "bionumpy.io.delimited_buffers.Bed6Buffer", ".bed",
             [("chromosome", "id"), ("start", "int"), ("stop", "int"), ("name", "id"), ("score", "int"), ("strand", "strand")]),
    "bed12": ("bionumpy.datatypes.Bed12", "bionumpy.io.delimited_buffers.Bed12Buffer", ".bed",
              [("chromosome", "id"), ("start", "int"), ("stop", "int"), ("name", "id"), ("score", "int"), ("strand", "strand"),
               ("thick_start", "int"), ("thick_end", "int"), ("item_rgb", "str"), ("block_count", "int"), ("block_sizes", "ilist"),
               ("block_starts", "ilist")]),
    "bedgraph": ("bionumpy.datatypes.BedGraph", "bionumpy.io.delimited_buffers.BdgBuffer", ".bdg",
                 [("chromosome", "id"), ("start", "int"), ("stop", "int"), ("value", "float")]),
    "narrowpeak": ("bionumpy.datatypes.NarrowPeak", "bionumpy.io.delimited_buffers.NarrowPeakBuffer", ".narrowPeak",
                   [("chromosome", "id"), ("start", "int"), ("stop", "int"), ("name", "id"), ("score", "int"), ("strand", "strand"),
                    ("signal_value", "float"), ("p_value", "float"), ("q_value", "float"), ("summit", "int")]),
    "chromsizes": ("bionumpy.datatypes.ChromosomeSize", "bionumpy.io.delimited_buffers.ChromosomeSizeBuffer", ".sizes",
                   [("name", "str"), ("size", "int")]),
    "fasta": ("bionumpy.datatypes.SequenceEntry", "bionumpy.io.multiline_buffer.MultiLineFastaBuffer", ".fa",
              [("name", "id"), ("sequence", "seq1")]),
    "fasta2": ("bionumpy.datatypes.SequenceEntry", "bionumpy.io.one_line_buffer.TwoLineFastaBuffer", ".fa",
               [("name", "id"), ("sequence", "seq")]),
    "gfa": ("bionumpy.datatypes.SequenceEntry", "bionumpy.io.delimited_buffers.GfaSequenceBuffer", ".gfa",
            [("name", "id"), ("sequence", "seq1")]),
    "fastq": ("bionumpy.datatypes.SequenceEntryWithQuality", "bionumpy.io.fastq_buffer.FastQBuffer", ".fq",
              [("name", "id"), ("sequence", "seq1"), ("quality", "qual")]),
    "sam": ("bionumpy.datatypes.SAMEntry", "bionumpy.io.buffers.sam.SAMBuffer", ".sam",
            [("name", "id"), ("flag", "uint"), ("chromosome", "id"), ("position", "uint"), ("mapq", "uint"), ("cigar", "str"),
             ("next_chromosome", "str"), ("next_position", "uint"), ("length", "int"), ("sequence", "str"), ("quality", "str"), ("extra", "tags")]),
    "gtf": ("bionumpy.datatypes.GTFEntry", "bionumpy.io.delimited_buffers.GTFBuffer", ".gtf",
            [("chromosome", "id"), ("source", "str"), ("feature_type", "id"), ("start", "int"), ("stop", "int"), ("score", "str"),
             ("strand", "strand"), ("phase", "str"), ("atributes", "str")]),
    "gff": ("bionumpy.datatypes.GFFEntry", "bionumpy.io.delimited_buffers.GFFBuffer", ".gff3",
            [("chromosome", "id"), ("source", "str"), ("feature_type", "id"), ("start", "int"), ("stop", "int"), ("score", "str"),
             ("strand", "strand"), ("phase", "str"), ("atributes", "str")]),
    "pairs": ("bionumpy.datatypes.PairsEntry", "bionumpy.io.pairs.PairsBuffer", ".pairs",
              [("read_id", "str"), ("chrom1", "id"), ("pos1", "int"), ("chrom2", "id"), ("pos2", "int"), ("strand1", "strand"), ("strand2", "strand")]),
    "vcf": ("bionumpy.datatypes.VCFWithInfoAsStringEntry", "bionumpy.io.vcf_buffers.VCFWithInfoAsStringBuffer", ".vcf",
            [("chromosome", "id"), ("position", "pos"), ("id", "str"), ("ref_seq", "str"), ("alt_seq", "str"), ("quality", "str"),
             ("filter", "str"), ("info", "str")]),
    # the general VCF entry type with its INFO column given as text (what an eager read of a file without ##INFO lines holds)
    "vcfentry": ("bionumpy.datatypes.VCFEntry", "bionumpy.io.vcf_buffers.VCFBuffer", ".vcf",
                 [("chromosome", "id"), ("position", "pos"), ("id", "str"), ("ref_seq", "str"), ("alt_seq", "str"), ("quality", "str"),
                  ("filter", "str"), ("info", "str")]),
    # a VCF whose sample columns are held as a genotype matrix (one code per sample; FORMAT is always GT)
    "vcfmatrix": ("bionumpy.datatypes.VCFGenotypeEntry", "bionumpy.io.vcf_buffers.VCFMatrixBuffer", ".vcf",
                  [("chromosome", "id"), ("position", "pos"), ("id", "str"), ("ref_seq", "str"), ("alt_seq", "str"), ("quality", "str"),
                   ("filter", "str"), ("info", "str"), ("genotypes", "geno")]),
}
COMMENT = {"sam": "@"}
GENO_LETTERS = "012.|/"


def genotype_code(g):
    """The matrix code of one genotype text such as '0|1' or './.': base-6 number of its three characters, held in a signed byte."""
    v = 36 * GENO_LETTERS.index(g[0]) + 6 * GENO_LETTERS.index(g[1]) + GENO_LETTERS.index(g[2])
    return v - 256 if v > 127 else v

# re-read sources are used for the formats whose lazily read selections can be written back (C04 covers that write path in depth)
NO_REREAD = ("bed12", "chromsizes", "gtf", "gff", "gfa", "pairs", "fasta", "vcfentry", "vcfmatrix")


def _load(path):
    import importlib
    mod, name = path.rsplit(".", 1)
    return getattr(importlib.import_module(mod), name)


def build_table(tname, rows, dna=False):
    import numpy as np
    import bionumpy as bnp
    from npstructures import RaggedArray
    from bionumpy.encodings import QualityEncoding, StrandEncoding
    dc = _load(TYPES[tname][0])
    kinds = TYPES[tname][3]
    cols = []
    for j, (name, kind) in enumerate(kinds):
        vals = [r[j] for r in rows]
        if kind in ("int", "uint", "pos"):
            cols.append(np.array(vals, dtype=np.int64))
        elif kind == "float":
            cols.append(np.array(vals, dtype=np.float64))
        elif kind == "ilist":
            cols.append(RaggedArray([list(v) for v in vals]) if vals else RaggedArray(np.array([], dtype=int), np.array([], dtype=int)))
        elif kind == "qual":
            cols.append(bnp.as_encoded_array(vals, QualityEncoding) if vals else bnp.as_encoded_array([], QualityEncoding))
        elif kind == "strand":
            cols.append(bnp.as_encoded_array("".join(vals), StrandEncoding))
        elif kind == "geno":
            from bionumpy.encoded_array import EncodedArray
            from bionumpy.encodings.vcf_encoding import GenotypeRowEncoding
            n_samples = len(vals[0]) if vals else 0
            codes = np.array([[genotype_code(g) for g in v] for v in vals], dtype=np.int8).reshape(len(vals), n_samples)
            cols.append(EncodedArray(codes, GenotypeRowEncoding))
        elif kind in ("seq", "seq1") and dna and vals:
            cols.append(bnp.as_encoded_array(list(vals), bnp.DNAEncoding))      # the sequences held in the two-bit alphabet instead of as text
        else:
            cols.append(list(vals))
    return dc(*cols)


def canon(kind, v):
    if kind in ("int", "uint"):
        return str(int(v))
    if kind == "pos":
        return str(int(v) + 1)
    if kind == "float":
        return repr(float(v))
    if kind == "ilist":
        return ",".join(str(int(x)) for x in v)
    if kind == "geno":
        return "GT\t" + "\t".join(v)
    return v


def canonical_body(tname, rows):
    kinds = TYPES[tname][3]
    out = []
    for r in rows:
        if tname == "fasta":
            seq = r[1]
            out.append(">" + r[0] + "\n" + "".join(seq[i:i + 80] + "\n" for i in range(0, len(seq), 80)))
        elif tname == "fasta2":
            out.append(">" + r[0] + "\n" + r[1] + "\n")
        elif tname == "gfa":
            out.append("S\t" + r[0] + "\t" + r[1] + "\n")
        elif tname == "fastq":
            out.append("@" + r[0] + "\n" + r[1] + "\n+\n" + r[2] + "\n")
        elif tname == "sam":
            f = [canon(k, v) for (n, k), v in zip(kinds, r)]
            out.append("\t".join(f[:11] + ([f[11]] if f[11] else [])) + "\n")
        else:
            out.append("\t".join(canon(k, v) for (n, k), v in zip(kinds, r)) + "\n")
    return "".join(out).encode("latin-1")


def expected_read_rows(tname, rows):
    kinds = TYPES[tname][3]
    out = []
    for r in rows:
        row = []
        for (n, k), v in zip(kinds, r):
            if k == "qual":
                row.append([ord(c) - 33 for c in v])
            elif k == "ilist":
                row.append([int(x) for x in v])
            elif k == "geno":
                row.append(list(v))
            elif k == "float":
                row.append(float(v))
            elif k in ("int", "uint", "pos"):
                row.append(int(v))
            else:
                row.append(v)
        out.append(tuple(row))
    return out


def _where(e):
    tb = traceback.extract_tb(e.__traceback__)
    return next((f"{os.path.basename(fr.filename)}:{fr.name}" for fr in reversed(tb) if "/bionumpy/" in fr.filename), "?")


def split_header(tname, data):
    c = COMMENT.get(tname, "#").encode()
    if tname in ("fasta", "fasta2", "fastq"):
        return b"", data
    lines = data.split(b"\n")
    i = 0
    while i < len(lines) and lines[i].startswith(c):
        i += 1
    hdr = b"".join(l + b"\n" for l in lines[:i])
    return hdr, data[len(hdr):]


def plan_rows(rows, plan):
    """The rows the plan writes, in order (a re-read source may be thinned to every second row of each piece)."""
    if plan.get("source") == "reread" and plan.get("thin") and not plan.get("chunk_bytes"):
        return [r for i, r in enumerate(rows) if i % 2 == 0]
    return list(rows)


def run_plan(tname, rows, plan, path, single=None, table=None, dna=False):
    """Write `rows` according to the plan; returns the decompressed file content.
    source 'constructed': every piece is a table built from values. source 'reread': the pieces are slices (optionally thinned by a
    boolean mask, i.e. non-contiguous selections) of the table obtained by reading the single-write file back lazily."""
    import numpy as np
    import bionumpy as bnp
    from bionumpy.streams import NpDataclassStream
    bt = _load(TYPES[tname][1])
    dc = _load(TYPES[tname][0])
    bounds, pos = [], 0
    for n in plan["pieces"]:
        bounds.append((pos, min(pos + n, len(rows))))
        pos = min(pos + n, len(rows))
    bounds.append((pos, len(rows))) if pos < len(rows) or not bounds else None
    if plan.get("source") == "reread" and plan.get("chunk_bytes"):
        # the pieces are the chunks one reader hands out for the file just written; on every second chunk (the first, the third, ...) an
        # integer column is assigned its own values again before the chunk is written; the other chunks are written as they come
        int_col = next((n_ for n_, k_ in TYPES[tname][3] if k_ in ("int", "pos", "uint")), None)

        def pieces_of_reader():
            # (a chunk size far below the file size only costs time: at most some forty raw reads per file)
            k_ = max(plan["chunk_bytes"], os.path.getsize(single) // 40)
            for i, chunk in enumerate(bnp.open(single, buffer_type=bt).read_chunks(min_chunk_size=k_)):
                if int_col and i % 2 == 0 and plan.get("assign"):
                    setattr(chunk, int_col, getattr(chunk, int_col) + 0)
                yield chunk
        with bnp.open(path, "w", buffer_type=bt) as f:
            if plan["mode"] == "stream":
                f.write(NpDataclassStream(pieces_of_reader(), dataclass=dc))
            else:
                for chunk in pieces_of_reader():
                    f.write(chunk)
        with open(path, "rb") as f:
            data = f.read()
        return gzip.decompress(data) if path.endswith(".gz") else data
    if plan.get("source") == "reread":
        whole = bnp.open(single, buffer_type=bt).read()

        def piece(a, b):
            t = whole[a:b]
            if plan.get("thin"):
                t = t[np.array([(a + i) % 2 == 0 for i in range(b - a)], dtype=bool)]
            return t
    elif plan.get("source") == "same-table":
        # the pieces are slices of the very table object that the single write has already written once
        def piece(a, b):
            return table[a:b]
    else:
        def piece(a, b):
            return build_table(tname, rows[a:b], dna)
    mode = plan["mode"]
    if mode == "writes":
        with bnp.open(path, "w", buffer_type=bt) as f:
            for a, b in bounds:
                f.write(piece(a, b))
    elif mode == "stream":
        with bnp.open(path, "w", buffer_type=bt) as f:
            f.write(NpDataclassStream((piece(a, b) for a, b in bounds), dataclass=dc))
    elif mode == "append":
        first = True
        for a, b in bounds:
            with bnp.open(path, "w" if first else "a", buffer_type=bt) as f:
                f.write(piece(a, b))
            first = False
    elif mode == "concat":
        with bnp.open(path, "w", buffer_type=bt) as f:
            f.write(np.concatenate([piece(a, b) for a, b in bounds]))
    else:
        raise ValueError(mode)
    with open(path, "rb") as f:
        data = f.read()
    return gzip.decompress(data) if path.endswith(".gz") else data


def classify(case):
    tname, rows, plan = case["type"], case["rows"], case["plan"]
    kinds = TYPES[tname][3]
    cl = [tname, plan["mode"]]
    for r in rows:
        for (n, k), v in zip(kinds, r):
            if k in ("seq", "seq1") and len(v) in (79, 80, 81):
                cl.append("seq-len-79-81")
            if k in ("seq", "seq1") and len(v) in (159, 160, 161):
                cl.append("seq-len-159-161")
            if k in ("int",) and v < 0:
                cl.append("negative-int")
            if k in ("int", "uint", "pos") and abs(v) >= 9 and any(abs(abs(v) - 10 ** p) <= 2 for p in range(1, 19)):
                cl.append("int-near-power-of-ten")
            if isinstance(v, str) and len(v) == 1:
                cl.append("one-char-field")
    if plan.get("gzip"):
        cl.append("gzip")
    if case.get("dna_encoded") and rows:
        cl.append("sequence-column-in-dna-encoding")
    if case.get("view_perm"):
        cl.append("table-written-is-a-row-selection")
    if plan.get("source") == "same-table":
        cl.append("pieces-sliced-from-the-table-already-written")
    if plan.get("source") == "reread" and plan.get("chunk_bytes"):
        cl.append("pieces-are-the-chunks-of-one-reader" + ("-a-column-assigned-on-every-second" if plan.get("assign") else ""))
    elif plan.get("source") == "reread":
        cl.append("pieces-from-reread" + ("-thinned" if plan.get("thin") else ""))
        if plan["mode"] == "concat":
            cl.append("concat-of-reread-pieces")
    pieces = plan["pieces"]
    if pieces and pieces[0] == 0 and len(rows) > 0:
        cl.append("empty-piece-first")
    if any(p == 0 for p in pieces[1:]) and len(rows) > 1:
        cl.append("empty-piece-between")
    if not rows:
        cl.append("empty-table")
    lens = {len(canonical_body(tname, [r])) for r in rows}
    nontrivial = len(lens) >= 2 and len(pieces) >= 1
    return nontrivial, sorted(set(cl))


def check(case, stats=None):
    import bionumpy as bnp
    from pbt.props.c02 import reset_state
    reset_state()
    tname, rows, plan = case["type"], [tuple(r) for r in case["rows"]], case["plan"]
    dna = bool(case.get("dna_encoded"))
    perm = case.get("view_perm")
    if perm:
        # the table that is written is a row selection (a view nothing has read yet) of a table built in another order
        built_rows = [None] * len(rows)
        for pos, src_i in enumerate(perm):
            built_rows[src_i] = rows[pos]
    bt = _load(TYPES[tname][1])
    suffix = TYPES[tname][2]
    out = []
    with tempfile.TemporaryDirectory(prefix="pbtc03") as d:
        single = os.path.join(d, "single" + suffix)
        try:
            if perm:
                import numpy as np
                table = build_table(tname, built_rows, dna)[np.array(perm, dtype=int)]
            else:
                table = build_table(tname, rows, dna)
            with bnp.open(single, "w", buffer_type=bt) as f:
                f.write(table)
            with open(single, "rb") as f:
                data = f.read()
        except Exception as e:
            return [Failure(f"C03:write-raised:{tname}:{type(e).__name__}:{_where(e)}", {"error": repr(e)[:300]})]
        hdr, body = split_header(tname, data)
        exp = canonical_body(tname, rows)
        if body != exp:
            return [Failure(f"C03:not-canonical:{tname}", {"expected": exp[:400], "actual": body[:400]})]
        # the table handed to the writer still holds the values it was built from
        try:
            diff = formats.first_row_diff(formats.table_rows(build_table(tname, rows, dna)), formats.table_rows(table), 0)
        except Exception as e:
            return [Failure(f"C03:table-unreadable-after-writing:{tname}:{type(e).__name__}:{_where(e)}", {"error": repr(e)[:300]})]
        if diff is not None:
            return [Failure(f"C03:table-changed-by-writing:{tname}", diff)]
        if tname == "fastq" and rows and all(r[1] for r in rows):
            # the table read back from the FASTQ file, written to a FASTA (.fa) target: the FASTA layout of its names and sequences,
            # whether the table was read lazily or eagerly
            fa_bt = _load(TYPES["fasta"][1])
            want_fa = canonical_body("fasta", [(r[0], r[1]) for r in rows])
            for lazy in (True, False):
                try:
                    src = bnp.open(single, buffer_type=bt, lazy=lazy).read()
                    target = os.path.join(d, "as_fasta.fa")
                    with bnp.open(target, "w", buffer_type=fa_bt) as f:
                        f.write(src)
                    got_fa = open(target, "rb").read()
                except Exception as e:
                    return [Failure(f"C03:write-raised:fastq-table-to-fasta:{type(e).__name__}:{_where(e)}", {"error": repr(e)[:300], "lazy": lazy})]
                if got_fa != want_fa:
                    return [Failure("C03:not-canonical:fastq-table-to-fasta", {"expected": want_fa[:300], "actual": got_fa[:300], "lazy": lazy})]
        # (b) round trip, eager and lazy
        if rows:
            want = expected_read_rows(tname, rows)
            for lazy in (False, True):
                try:
                    fh = bnp.open(single, buffer_type=bt, lazy=lazy)
                    got = formats.table_rows(fh.read())
                    fh.close()
                except Exception as e:
                    return [Failure(f"C03:read-back-raised:{tname}:{type(e).__name__}:{_where(e)}", {"error": repr(e)[:300], "lazy": lazy})]
                diff = formats.first_row_diff(want, got)
                if diff is not None:
                    return [Failure(f"C03:round-trip:{tname}", dict(diff, lazy=lazy))]
        # (c) composition
        target = os.path.join(d, "plan" + suffix + (".gz" if plan.get("gzip") else ""))
        try:
            got = run_plan(tname, rows, plan, target, single, table, dna)
        except Exception as e:
            return [Failure(f"C03:plan-raised:{plan['mode']}:{tname}:{type(e).__name__}:{_where(e)}", {"error": repr(e)[:300], "source": plan.get("source")})]
        if plan.get("source") == "reread":
            # the pieces come from the file just written: writing them back (whole, thinned, concatenated) gives the canonical bytes of those rows
            want_rows = plan_rows(rows, plan)
            want = (hdr if want_rows or got.startswith(hdr) else b"") + canonical_body(tname, want_rows)
            if got != want:
                h2, b2 = split_header(tname, got)
                kind = "header-repeated-or-missing" if b2 == canonical_body(tname, want_rows) else "content"
                out.append(Failure(f"C03:composition:{kind}:reread:{plan['mode']}", {"expected": want[:400], "plan": got[:400], "pieces": plan["pieces"],
                                                                                   "thin": plan.get("thin"), "type": tname}))
        elif got != data:
            h2, b2 = split_header(tname, got)
            if b2 == body and h2 != hdr:
                kind = "header-repeated-or-missing"
            elif hdr and got.count(hdr) > 1:
                kind = "header-repeated-or-missing"
            else:
                kind = "content"
            out.append(Failure(f"C03:composition:{kind}:{plan['mode']}{':gzip' if plan.get('gzip') else ''}",
                               {"single": data[:400], "plan": got[:400], "pieces": plan["pieces"], "type": tname}))
    return out


# ---------------------------------------------------------------------------------------

_POW = [s * (10 ** p + d) for p in range(0, 19) for d in (-2, -1, 0, 1, 2) for s in (1, -1) if abs(10 ** p + d) < 2 ** 63]


def int_strategy(signed=True):
    lo = -2 ** 63 if signed else 0
    base = st.one_of(st.integers(lo, 2 ** 63 - 1), st.sampled_from(_POW), st.integers(-1000 if signed else 0, 1000),
                     st.sampled_from([0, 2 ** 63 - 1] + ([-2 ** 63] if signed else [])))
    return base if signed else base.map(abs).map(lambda v: min(v, 2 ** 63 - 1))


def value_strategy(kind):
    if kind == "int":
        return int_strategy(True)
    if kind == "uint":
        return int_strategy(False)
    if kind == "pos":
        return st.integers(0, 2 ** 62)
    if kind == "float":
        return st.one_of(st.floats(allow_nan=False, allow_infinity=False, width=64),
                         st.floats(-1e6, 1e6, allow_nan=False), st.sampled_from([0.0, 1.0, -1.5, 0.1, 1e-5, 1e16, 123456.789]))
    if kind == "ilist":
        return st.lists(st.integers(0, 10 ** 6), min_size=1, max_size=5)
    if kind == "strand":
        return st.sampled_from("+-.")
    if kind == "id":
        return S.uneven_widths(12).flatmap(lambda n: S.first_field(n, n))
    if kind == "str":
        return S.uneven_widths(12).flatmap(lambda n: S.ident(n, n, S.NAMEISH))
    if kind == "tags":
        return st.one_of(st.just(""), st.just("NM:i:1"), st.just("NM:i:1\tMD:Z:10A5"))
    if kind in ("seq", "seq1"):
        lo = 0 if kind == "seq" else 1
        return st.one_of(st.integers(lo, 30), st.sampled_from([79, 80, 81, 159, 160, 161, 1, 240])).flatmap(
            lambda n: st.text(alphabet="ACGT", min_size=n, max_size=n))
    if kind == "qual":
        return st.just("")
    raise ValueError(kind)


@st.composite
def c03_case(draw, tname, max_rows):
    kinds = TYPES[tname][3]
    n = draw(st.one_of(st.integers(0, max_rows), st.integers(2, max_rows), st.integers(2, max_rows), st.sampled_from([0, 1])))
    if tname == "vcfmatrix":
        n = max(n, 1)        # (a table without rows has no sample columns to speak of)
    n_samples = draw(st.integers(1, 4))
    rows = []
    for _ in range(n):
        row = [draw(value_strategy(k)) if k != "geno" else
               [draw(st.builds(lambda a, s_, b: a + s_ + b, st.sampled_from("012."), st.sampled_from("|/"), st.sampled_from("012."))) for _ in range(n_samples)]
               for _, k in kinds]
        if tname == "fastq":
            row[2] = draw(st.text(alphabet=S.QUAL_CHARS, min_size=len(row[1]), max_size=len(row[1])))
        rows.append(row)
    k = draw(st.integers(1 if n == 0 else 0, 4))
    pieces = [draw(st.integers(0, max(1, n))) for _ in range(k)]
    plan = {"pieces": pieces, "mode": draw(st.sampled_from(["writes", "writes", "stream", "append"])), "gzip": draw(st.booleans())}
    if n >= 1 and draw(st.integers(0, 3)) == 0:
        plan["source"] = "same-table"
    extra = {}
    if any(k in ("seq", "seq1") for _, k in kinds) and draw(st.booleans()):
        extra["dna_encoded"] = True
    if n >= 2 and draw(st.integers(0, 3)) == 0:
        p_ = list(draw(st.permutations(range(n))))
        if p_ != list(range(n)):
            extra["view_perm"] = p_
    if n >= 2 and tname not in NO_REREAD and draw(st.integers(0, 2)) == 0:
        plan.update(source="reread", thin=draw(st.booleans()), mode=draw(st.sampled_from(["writes", "stream", "append", "concat", "concat"])))
        if draw(st.integers(0, 2)) == 0:
            plan.update(chunk_bytes=draw(st.integers(8, 120)), assign=draw(st.booleans()), mode=draw(st.sampled_from(["writes", "stream"])))
    return dict({"type": tname, "rows": rows, "plan": plan}, **extra)


def task_type(stats, known_open, tname, n, seed, max_rows):
    import sys
    core.run_hypothesis(sys.modules[__name__], c03_case(tname, max_rows), stats, known_open, max_examples=n, seed=seed)


def tasks(tier, seed):
    out = []
    n, mr, reps = (150, 8, 1) if tier == "quick" else (1500, 40, 2)
    for i, t in enumerate(TYPES):
        for j in range(reps):
            out.append(("task_type", dict(tname=t, n=n, seed=seed * 1000 + i * 10 + j, max_rows=mr)))
    return out
