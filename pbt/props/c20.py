"""C20  Operations do not modify their inputs."""
import io
import os
import traceback

from hypothesis import strategies as st

from pbt import core, formats, strategies as S
from pbt.core import Failure

ID = "C20"
RULE = ("A registry of public functions and methods, each called on generated arguments: text/number conversion (str_to_int, str_to_float, the "
        "with_missing variants, ints_to_strings, int_lists_to_strings, split, join, str_equal), interval arithmetic (get_pileup, get_boolean_mask, "
        "merge_intervals with distance 0 and > 0, sort_intervals, count_overlap, intersect, unique_intersect, clip, extend_to_size, jaccard, forbes), "
        "sequence functions (get_kmers, get_minimizers, match_string, get_motif_scores, count_kmers, get_reverse_complement, "
        "translate_dna_to_protein, get_strand_specific_sequences), encoding changes (as_encoded_array to another alphabet, change_encoding), "
        "genomic-data methods (get_mask, get_pileup, merged, clip, extended_to_size, sorted, get_location, array arithmetic and histogram), "
        "table methods (indexing, concatenate, sort_by, replace, add_fields, tolist, todict, topandas), file writers (a Bed6, VCF, FASTA and FASTQ table handed to bnp.open(path, 'w').write), "
        "alignment_to_interval on records with 16-bit flags, and field access on lazily read chunks of "
        "every text format and every field (BED12 lists, typed VCF INFO, genotype matrices, narrowPeak floats, signed integers) in a generated "
        "order, on the chunk and on slices of it. Arguments are passed both as freshly built arrays and as views into a larger buffer. "
        "Oracle: a deep snapshot of every argument (and of the buffer a view was taken from) before the call equals the snapshot after it "
        "(in half of the cases the 'before' snapshot is taken from an identical second construction, so the argument handed to the call has never been read or flattened); "
        "calling again with the same arguments gives an equal result; for a lazily read chunk the bytes written (unmodified, and column-wise "
        "through a replaced field) before any field access equal those written after every field has been accessed. "
        "Non-trivial: the call takes one of the in-place paths: signed numbers, scientific floats, list-valued or genotype columns, merge "
        "distance > 0, or a view argument.")
ASSUMPTIONS = [
    "Functions whose documented job is assignment (__setitem__, attribute assignment) are not in the registry.",
    "The registry is finite and hand-built from the public API; a function missing from it is not checked. The evidence lists calls per entry.",
]
REQUIRED_CLASSES = ["bam", "bam-observe-after-write", "view-argument", "never-read-argument", "signed-numbers", "scientific-floats", "list-valued-column", "genotype-column", "merge-distance>0", "typed-info",
                    "lazy-chunk", "strops", "intervals", "sequence", "encoding", "genomic", "table"]
BOUNDS = {"quick": "60 calls per registry entry (62 entries) plus 120 lazily read chunks per format (12 formats)", "thorough": "1500 calls per entry, 2500 chunks per format"}
BUDGET_S = {"quick": 200, "thorough": 1500}


def _where(e):
    tb = traceback.extract_tb(e.__traceback__)
    return next((f"{os.path.basename(fr.filename)}:{fr.name}" for fr in reversed(tb) if "/bionumpy/" in fr.filename), "?")


def snap(x):
    """deep, value-level snapshot"""
    import numpy as np
    from npstructures import RaggedArray
    from bionumpy.encoded_array import EncodedArray, EncodedRaggedArray
    from bionumpy.bnpdataclass import BNPDataClass
    if hasattr(x, "get_data_object") and not isinstance(x, BNPDataClass):
        x = x.get_data_object()
    if isinstance(x, BNPDataClass):
        return ("table", formats.table_rows(x))
    if isinstance(x, EncodedRaggedArray):
        return ("eragged", repr(x.encoding), [np.asarray(r.raw()).tolist() for r in x])
    if isinstance(x, EncodedArray):
        return ("earray", repr(x.encoding), np.asarray(x.raw()).tolist(), tuple(x.shape))
    if isinstance(x, RaggedArray):
        return ("ragged", x.tolist())
    if isinstance(x, np.ndarray):
        return ("nd", str(x.dtype), x.tolist())
    if hasattr(x, "to_dict") and hasattr(x, "genome_context"):
        return ("garray", {k: np.asarray(v).tolist() for k, v in x.to_dict().items()})
    if hasattr(x, "get_data") and hasattr(x, "genome_context"):
        return ("gintervals", snap(x.get_data()))
    if type(x).__name__ == "StringArray":
        return ("sarray", x.raw().tolist())
    if type(x).__name__ == "EncodedCounts":
        return ("counts", list(x.alphabet), np.asarray(x.counts).tolist())
    if isinstance(x, dict):
        return {k: snap(v) for k, v in x.items()}
    if isinstance(x, (list, tuple)):
        return [snap(v) for v in x]
    if isinstance(x, (np.integer, np.floating, np.bool_)):
        return x.item()
    return x if isinstance(x, (int, float, str, bool, type(None))) else repr(x)


def same(a, b):
    try:
        return formats.value_equal(a, b, 0) if not isinstance(a, dict) else (a.keys() == b.keys() and all(same(a[k], b[k]) for k in a))
    except Exception:
        return a == b


# ---------------------------------------------------------------------------------------
# argument builders
# ---------------------------------------------------------------------------------------

def ragged_text(texts, view, enc=None):
    """an EncodedRaggedArray holding `texts`; as a view it is a row selection out of a larger array (returned as second value)"""
    import numpy as np
    import bionumpy as bnp
    if not view:
        x = bnp.as_encoded_array(list(texts), enc) if enc is not None else bnp.as_encoded_array(list(texts))
        return x, None
    padded = ["9"] + list(texts) + ["7", "8"] if enc is None else [texts[0] if texts else ""] + list(texts) + [texts[-1] if texts else ""]
    big = bnp.as_encoded_array(padded, enc) if enc is not None else bnp.as_encoded_array(padded)
    return big[1:1 + len(texts)], big


def intervals(ivs, view, strands=None):
    import numpy as np
    from bionumpy.datatypes import Interval, StrandedInterval
    ivs = [tuple(x) for x in ivs]
    if view:
        pad = [(0, 1)] + ivs + [(0, 1)]
        starts = np.array([a for a, b in pad], dtype=int)
        stops = np.array([b for a, b in pad], dtype=int)
        s, e = starts[1:-1], stops[1:-1]
        base = (starts, stops)
    else:
        s, e = np.array([a for a, b in ivs], dtype=int), np.array([b for a, b in ivs], dtype=int)
        base = None
    if strands is not None:
        return StrandedInterval(["chr1"] * len(ivs), s, e, "".join(strands[i % len(strands)] for i in range(len(ivs))) if ivs else ""), base
    return Interval(["chr1"] * len(ivs), s, e), base


def registry():
    """name -> (group, needs, function(case) -> (args_for_snapshot, thunk))"""
    import numpy as np
    import bionumpy as bnp
    from npstructures import RaggedArray
    from bionumpy.io import strops
    from bionumpy import arithmetics as ar
    from bionumpy.arithmetics import intervals as iv
    from bionumpy.encodings import alphabet_encoding as ae
    from bionumpy.sequence.position_weight_matrix import PWM
    from bionumpy.sequence import count_kmers
    R = {}

    def reg(name, group):
        def deco(f):
            R[name] = (group, f)
            return f
        return deco

    # --- strops ---------------------------------------------------------------------------------
    for fname in ("str_to_int", "str_to_int_with_missing"):
        def mk(fname=fname):
            def f(c):
                x, base = ragged_text(c["int_texts"], c["view"])
                return [x, base], lambda: getattr(strops, fname)(x)
            return f
        reg(fname, "strops")(mk())
    for fname in ("str_to_float", "str_to_float_with_missing"):
        def mk(fname=fname):
            def f(c):
                x, base = ragged_text(c["float_texts"], c["view"])
                return [x, base], lambda: getattr(strops, fname)(x)
            return f
        reg(fname, "strops")(mk())

    @reg("ints_to_strings", "strops")
    def _(c):
        big = np.array([5] + c["ints"] + [6], dtype=np.int64)
        x = big[1:-1] if c["view"] else np.array(c["ints"], dtype=np.int64)
        return [x, big], lambda: strops.ints_to_strings(x)

    @reg("int_lists_to_strings", "strops")
    def _(c):
        x = RaggedArray([list(l) for l in c["int_lists"]])
        return [x], lambda: strops.int_lists_to_strings(x)

    @reg("split", "strops")
    def _(c):
        full = bnp.as_encoded_array("x," + ",".join(c["words"]) + ",y")
        x = full[2:-2] if c["view"] else bnp.as_encoded_array(",".join(c["words"]))
        return [x, full], lambda: strops.split(x, sep=",")

    @reg("join", "strops")
    def _(c):
        x, base = ragged_text(c["words"], c["view"])
        return [x, base], lambda: strops.join(x, sep="\t")

    @reg("str_equal", "strops")
    def _(c):
        x, base = ragged_text(c["words"], c["view"])
        return [x, base], lambda: strops.str_equal(x, c["words"][0])

    # --- intervals ----------------------------------------------------------------------------------
    def sorted_ivs(c):
        return sorted(tuple(x) for x in c["ivs"])

    for name, fn in (("get_pileup", lambda t, c: ar.get_pileup(t, c["S"]).to_array()), ("get_boolean_mask", lambda t, c: ar.get_boolean_mask(t, c["S"]).to_array()),
                     ("merge_intervals(0)", lambda t, c: ar.merge_intervals(t)), ("merge_intervals(d)", lambda t, c: ar.merge_intervals(t, distance=c["d"])),
                     ("sort_intervals", lambda t, c: ar.sort_intervals(t)), ("clip", lambda t, c: iv.clip(t, max(1, c["S"] // 2)))):
        def mk(fn=fn, name=name):
            def f(c):
                t, base = intervals(sorted_ivs(c) if name != "sort_intervals" else c["ivs"], c["view"])
                return [t, base], lambda: fn(t, c)
            return f
        reg(name, "intervals")(mk())

    @reg("extend_to_size", "intervals")
    def _(c):
        t, base = intervals(c["ivs"], c["view"], strands=c["strands"])
        return [t, base], lambda: iv.extend_to_size(t, c["d"] + 1, c["S"])

    for name, fn in (("count_overlap", ar.count_overlap), ("intersect", ar.intersect)):
        def mk(fn=fn):
            def f(c):
                a, ba = intervals(sorted_ivs(c), c["view"])
                b, bb = intervals(sorted(tuple(x) for x in c["ivs2"]), c["view"])
                return [a, b, ba, bb], lambda: fn(a, b)
            return f
        reg(name, "intervals")(mk())

    @reg("unique_intersect", "intervals")
    def _(c):
        a, ba = intervals(sorted_ivs(c), c["view"])
        b, bb = intervals(sorted(tuple(x) for x in c["ivs2"]), c["view"])
        return [a, b, ba, bb], lambda: ar.unique_intersect(a, b, c["S"])

    for name, fn in (("jaccard", ar.jaccard), ("forbes", ar.forbes)):
        def mk(fn=fn):
            def f(c):
                a, ba = intervals(sorted_ivs(c), c["view"])
                b, bb = intervals(sorted(tuple(x) for x in c["ivs2"]), c["view"])
                sizes = {"chr1": c["S"]}

                def call():
                    try:
                        return float(fn(sizes, a, b))
                    except ZeroDivisionError:
                        return "zero-division"
                return [a, b, ba, bb, sizes], call
            return f
        reg(name, "intervals")(mk())

    # --- sequences ------------------------------------------------------------------------------------
    def dna(c, enc):
        rows = [r or "A" for r in c["dna"]]
        return ragged_text(rows, c["view"], enc)

    @reg("get_kmers", "sequence")
    def _(c):
        x, base = dna(c, ae.ACGTEncoding)
        return [x, base], lambda: bnp.get_kmers(x, c["k"]) if sum(len(r) for r in x.tolist()) >= c["k"] else None

    @reg("get_kmers(generic)", "sequence")
    def _(c):
        x, base = dna(c, ae.ACGTnEncoding)
        return [x, base], lambda: bnp.get_kmers(x, c["k"]) if sum(len(r) for r in x.tolist()) >= c["k"] else None

    @reg("get_minimizers", "sequence")
    def _(c):
        x, base = dna(c, ae.ACGTEncoding)
        return [x, base], lambda: bnp.get_minimizers(x, c["k"], c["k"] + 2) if sum(len(r) for r in x.tolist()) >= c["k"] + 2 else None

    @reg("count_kmers", "sequence")
    def _(c):
        x, base = dna(c, ae.ACGTEncoding)
        return [x, base], lambda: count_kmers(x, min(c["k"], 4)) if sum(len(r) for r in x.tolist()) >= 4 else None

    @reg("match_string", "sequence")
    def _(c):
        x, base = dna(c, None)
        return [x, base], lambda: bnp.match_string(x, "AC") if sum(len(r) for r in x.tolist()) >= 2 else None

    @reg("get_motif_scores", "sequence")
    def _(c):
        x, base = dna(c, None)
        pwm = PWM.from_dict({"A": [0.5, 0.25], "C": [0.5, 0.25], "G": [0.0, 0.25], "T": [0.0, 0.25]})
        return [x, base, pwm._matrix], lambda: bnp.get_motif_scores(x, pwm) if sum(len(r) for r in x.tolist()) >= 2 else None

    @reg("get_reverse_complement", "sequence")
    def _(c):
        x, base = ragged_text(c["dna_mixed"], c["view"])
        return [x, base], lambda: bnp.sequence.get_reverse_complement(x)

    @reg("get_reverse_complement(flat)", "sequence")
    def _(c):
        text = "".join(c["dna_mixed"]) + "ACGTNacgtn"
        full = bnp.as_encoded_array("GG" + text + "TT")
        x = full[2:-2] if c["view"] else bnp.as_encoded_array(text)
        return [x, full], lambda: bnp.sequence.get_reverse_complement(x)

    @reg("get_reverse_complement(flat,encoded)", "sequence")
    def _(c):
        text = "".join(c["dna"]) + "ACGTACGTAC"
        x = bnp.as_encoded_array(text, ae.ACGTEncoding)
        return [x], lambda: bnp.sequence.get_reverse_complement(x)

    @reg("get_reverse_complement(encoded)", "sequence")
    def _(c):
        x, base = dna(c, ae.ACGTnEncoding)
        return [x, base], lambda: bnp.sequence.get_reverse_complement(x)

    @reg("translate_dna_to_protein", "sequence")
    def _(c):
        rows = [(r * 3)[:3 * max(1, len(r) // 1)] if r else "" for r in c["dna"]]
        rows = [r[:len(r) - len(r) % 3] for r in rows]
        x, base = ragged_text(rows, c["view"])
        return [x, base], lambda: bnp.sequence.translate_dna_to_protein(x)

    @reg("get_strand_specific_sequences", "sequence")
    def _(c):
        seq = bnp.as_encoded_array("".join(c["dna"]) + "ACGTACGTAC")
        L = len(seq)
        ivs = [(a % L, min(L, a % L + 1 + (b % 5))) for a, b in c["ivs"]] or [(0, 1)]
        t, base = intervals(ivs, c["view"], strands=c["strands"])
        return [seq, t, base], lambda: bnp.sequence.get_strand_specific_sequences(seq, t)

    # --- encodings ------------------------------------------------------------------------------------
    @reg("as_encoded_array(retarget)", "encoding")
    def _(c):
        x, base = dna(c, ae.ACGTEncoding)
        return [x, base], lambda: bnp.as_encoded_array(x, ae.ACGTnEncoding)

    @reg("change_encoding", "encoding")
    def _(c):
        x, base = dna(c, ae.ACGTEncoding)
        return [x, base], lambda: bnp.change_encoding(x, bnp.encodings.BaseEncoding)

    @reg("GenotypeRowEncoding.encode", "encoding")
    def _(c):
        # rows of genotype text as the VCF reader cuts them out: tab-separated calls, the last one followed by the line break
        from bionumpy.encodings.vcf_encoding import GenotypeRowEncoding, PhasedGenotypeRowEncoding
        calls = ["0|1", "1|1", "0/0", "./.", "1/0", "0|0"]
        n_samples = 1 + c["k"] % 3
        rows = ["\t".join(calls[(i + j + c["d"]) % len(calls)] for j in range(n_samples)) + "\n" for i in range(1 + c["S"] % 4)]
        x = bnp.as_encoded_array(rows)
        return [x], lambda: GenotypeRowEncoding.encode(x)

    @reg("change_encoding(from-ascii)", "encoding")
    def _(c):
        x, base = dna(c, None)
        return [x, base], lambda: bnp.change_encoding(x, ae.ACGTnEncoding)

    # --- genomic data -----------------------------------------------------------------------------------
    def gintervals(c, stranded=False):
        genome = bnp.Genome.from_dict({"chr1": c["S"], "chr2": c["S"] + 3})
        ivs = sorted(tuple(x) for x in c["ivs"])
        t, base = intervals(ivs, c["view"], strands=c["strands"] if stranded else None)
        return genome, genome.get_intervals(t, stranded=stranded), t, base

    for name, fn in (("GenomicIntervals.get_mask", lambda g: g.get_mask()), ("GenomicIntervals.get_pileup", lambda g: g.get_pileup()),
                     ("GenomicIntervals.merged", lambda g: g.merged()), ("GenomicIntervals.merged(d)", lambda g: g.merged(2)),
                     ("GenomicIntervals.clip", lambda g: g.clip()), ("GenomicIntervals.sorted", lambda g: g.sorted()),
                     ("GenomicIntervals.get_location", lambda g: g.get_location("stop").position)):
        def mk(fn=fn):
            def f(c):
                genome, gi, t, base = gintervals(c)
                return [gi, t, base], lambda: fn(gi)
            return f
        reg(name, "genomic")(mk())

    @reg("GenomicIntervals.clip(out-of-bounds)", "genomic")
    def _(c):
        # intervals that stick out of their chromosome on either side: clip has something to change, in a new object
        genome = bnp.Genome.from_dict({"chr1": c["S"], "chr2": c["S"] + 3})
        ivs = sorted((a - 1 - (i % 3), b + (i % 4)) for i, (a, b) in enumerate(tuple(x) for x in c["ivs"]))
        t, base = intervals(ivs, c["view"])
        gi = genome.get_intervals(t)
        return [gi, t, base], lambda: gi.clip()

    @reg("GenomicIntervals.extended_to_size", "genomic")
    def _(c):
        genome, gi, t, base = gintervals(c, stranded=True)
        return [gi, t, base], lambda: gi.extended_to_size(c["d"] + 1)

    @reg("GenomicArray.arithmetic", "genomic")
    def _(c):
        genome, gi, t, base = gintervals(c)
        p = gi.get_pileup()
        m = gi.get_mask()
        return [p, m], lambda: [(p + 1) * p, p > 0, m & ~m, np.histogram(p, bins=[0, 1, 2, 5])[0], p.sum()]

    @reg("GenomicArray[intervals]", "genomic")
    def _(c):
        genome, gi, t, base = gintervals(c, stranded=True)
        p = gi.get_pileup()
        return [p, gi, t, base], lambda: [np.asarray(r.to_array() if hasattr(r, "to_array") else r).tolist() for r in p[gi]]

    # --- tables ---------------------------------------------------------------------------------------
    def table(c):
        from bionumpy.datatypes import Bed6
        n = len(c["words"])
        ivs = [tuple(c["ivs"][i % len(c["ivs"])]) if c["ivs"] else (0, 1) for i in range(n)]
        return Bed6([w or "c" for w in c["words"]], np.array([a for a, b in ivs], dtype=int), np.array([b for a, b in ivs], dtype=int),
                    ["n%d" % i for i in range(n)], np.array([c["ints"][i % len(c["ints"])] % 1000 for i in range(n)], dtype=int),
                    "".join(c["strands"][i % len(c["strands"])] for i in range(n)))

    for name, fn in (("table[mask]", lambda t, c: t[np.arange(len(t)) % 2 == 0]), ("table[::-1]", lambda t, c: t[::-1]),
                     ("np.concatenate(tables)", lambda t, c: np.concatenate([t, t[:1]])), ("table.sort_by", lambda t, c: t.sort_by("start")),
                     ("bnp.replace", lambda t, c: bnp.replace(t, start=t.start + 1)), ("table.add_fields", lambda t, c: t.add_fields({"extra": list(range(len(t)))})),
                     ("table.tolist", lambda t, c: [repr(e) for e in t.tolist()]), ("table.todict", lambda t, c: {k: snap(v) for k, v in t.todict().items()}),
                     ("table.topandas", lambda t, c: t.topandas().to_dict("list") if len(t) else None)):
        def mk(fn=fn):
            def f(c):
                t = table(c)
                return [t], lambda: fn(t, c)
            return f
        reg(name, "table")(mk())

    # --- writers: handing a table to a file writer leaves the table as it was, and writing it again gives the same bytes ------------------
    def written(t, suffix, buffer_type=None):
        import tempfile
        with tempfile.TemporaryDirectory(prefix="pbtc20", dir="/dev/shm" if os.path.isdir("/dev/shm") else None) as d_:
            path = os.path.join(d_, "out" + suffix)
            with (bnp.open(path, "w", buffer_type=buffer_type) if buffer_type is not None else bnp.open(path, "w")) as fh:
                fh.write(t)
            with open(path, "rb") as fh:
                return fh.read().decode("latin-1")

    def vcf_table(c):
        from bionumpy.datatypes import VCFEntry
        n = len(c["words"])
        return VCFEntry([w or "c" for w in c["words"]], np.array([abs(c["ints"][i % len(c["ints"])]) % 10 ** 9 for i in range(n)], dtype=int), ["id%d" % i for i in range(n)],
                        [(c["dna"][i % len(c["dna"])] or "A") for i in range(n)], ["T"] * n, ["."] * n, ["PASS"] * n, ["."] * n)

    def seq_table(c, with_quality):
        rows = [d for d in c["dna"]] if not with_quality else [d or "A" for d in c["dna"]]
        names = ["r%d" % i for i in range(len(rows))]
        if with_quality:
            from bionumpy.encodings import QualityEncoding
            return bnp.SequenceEntryWithQuality(names, rows, bnp.as_encoded_array(["I" * len(r) for r in rows], QualityEncoding))
        return bnp.SequenceEntry(names, [r or "A" for r in rows])

    for name, mkt, suffix in (("write(Bed6)", table, ".bed"), ("write(VCFEntry)", vcf_table, ".vcf"),
                              ("write(SequenceEntry)", lambda c: seq_table(c, False), ".fa"),
                              ("write(SequenceEntryWithQuality)", lambda c: seq_table(c, True), ".fq")):
        def mk(mkt=mkt, suffix=suffix):
            def f(c):
                t = mkt(c)
                bt = None
                if suffix == ".bed":
                    from bionumpy.io.delimited_buffers import Bed6Buffer
                    bt = Bed6Buffer
                return [t], lambda: written(t, suffix, bt)
            return f
        reg(name, "writer")(mk())

    @reg("alignment_to_interval", "alignments")
    def _(c):
        # alignment records as the BAM reader hands them out: 16-bit flags, 32-bit positions, ragged CIGAR columns
        from bionumpy.datatypes import BamEntry
        from bionumpy.encodings import CigarOpEncoding, QualityEncoding
        n = len(c["ivs"])
        flags = np.array([(abs(c["ints"][i % len(c["ints"])]) % 4096) for i in range(n)], dtype=np.uint16)
        pos = np.array([a for a, b in c["ivs"]], dtype=np.int32)
        ops = bnp.as_encoded_array(["MIDNS"[: 1 + (b - a) % 5] for a, b in c["ivs"]], CigarOpEncoding)
        lens = RaggedArray([[1 + (a + j) % 7 for j in range(1 + (b - a) % 5)] for a, b in c["ivs"]])
        seqs = [c["dna"][i % len(c["dna"])] or "A" for i in range(n)]
        t = BamEntry(["chr1"] * n, ["r%d" % i for i in range(n)], flags, pos, np.array([30] * n, dtype=np.uint8), ops, lens,
                     bnp.as_encoded_array(seqs, bnp.encodings.BamEncoding), bnp.as_encoded_array(["I" * len(s_) for s_ in seqs], QualityEncoding))
        return [t, flags, pos], lambda: bnp.alignments.alignment_to_interval(t)
    return R


_REG = None


def get_registry():
    global _REG
    if _REG is None:
        _REG = registry()
    return _REG


LAZY_FMTS = ["bed3", "bed6", "bed12", "bdg", "narrowpeak", "vcf", "vcf-typed", "vcfm", "sam", "fastq", "fasta2", "pairs"]


def classify(case):
    cl = []
    nontrivial = False
    if case.get("fmt") == "bam":
        from pbt import bamprog
        nt, cl = bamprog.classify(case)
        return nt, cl + ["lazy-chunk"]
    if case["kind"] == "call":
        group = get_registry()[case["entry"]][0]
        cl.append(group)
        if case["view"]:
            cl.append("view-argument")
            nontrivial = True
        if case.get("untouched"):
            cl.append("never-read-argument")
        if case["entry"].startswith("str_to_int") and any(t[:1] in "+-" for t in case["int_texts"]):
            cl.append("signed-numbers")
            nontrivial = True
        if case["entry"].startswith("str_to_float") and any("e" in t for t in case["float_texts"]):
            cl.append("scientific-floats")
            nontrivial = True
        if case["entry"] in ("merge_intervals(d)", "GenomicIntervals.merged(d)") and case["d"] > 0:
            cl.append("merge-distance>0")
            nontrivial = True
    else:
        cl.append("lazy-chunk")
        cl.append(case["file"]["fmt"] if not case["file"].get("info_decl") else "typed-info")
        if case["file"]["fmt"] == "bed12":
            cl.append("list-valued-column")
        if case["file"]["fmt"] == "vcfm":
            cl.append("genotype-column")
        if case["file"].get("info_decl"):
            cl.append("typed-info")
        flat = [x for r in case["file"]["records"] for x in r]
        if any(x[:1] in "+-" and x[1:].isdigit() for x in flat):
            cl.append("signed-numbers")
        nontrivial = True
    return nontrivial, cl


def check_call(case, stats):
    group, builder = get_registry()[case["entry"]]
    try:
        args, thunk = builder(case)
    except Exception as e:
        return [Failure(f"C20:argument-construction-raised:{case['entry']}:{type(e).__name__}", {"error": repr(e)[:300]})]
    if case.get("untouched"):
        # taking a snapshot reads (and may flatten or cache) the argument. In this mode the arguments handed to the call have never been
        # read: the 'before' snapshot comes from an identical second construction of the same arguments.
        try:
            twin_args, _ = builder(case)
        except Exception as e:
            return [Failure(f"C20:argument-construction-raised:{case['entry']}:{type(e).__name__}", {"error": repr(e)[:300]})]
        before = snap(twin_args)
    else:
        before = snap(args)
    try:
        r1 = snap(thunk())
    except Exception as e:
        if stats is not None:
            stats.raised_allowed[case["entry"] + ":" + type(e).__name__] += 1
        after = snap(args)
        if not same(before, after):
            return [Failure(f"C20:input-modified:{case['entry']}", {"before": before, "after": after, "raised": repr(e)[:200]})]
        return []
    after = snap(args)
    if not same(before, after):
        which = next((i for i, (a, b) in enumerate(zip(before, after)) if not same(a, b)), None)
        return [Failure(f"C20:input-modified:{case['entry']}", {"argument": which, "before": before[which] if which is not None else before,
                                                                "after": after[which] if which is not None else after})]
    try:
        r2 = snap(thunk())
    except Exception as e:
        return [Failure(f"C20:second-call-raised:{case['entry']}:{type(e).__name__}:{_where(e)}", {"error": repr(e)[:300]})]
    if not same(r1, r2):
        return [Failure(f"C20:second-call-differs:{case['entry']}", {"first": r1, "second": r2})]
    if stats is not None:
        stats.extra.setdefault("calls_per_entry", {})
        stats.extra["calls_per_entry"][case["entry"]] = stats.extra["calls_per_entry"].get(case["entry"], 0) + 1
    return []


def check_lazy(case, stats):
    import dataclasses
    import numpy as np
    import bionumpy as bnp
    from bionumpy.io.parser import NumpyFileReader, NpBufferedWriter
    from bionumpy.io.npdataclassreader import NpDataclassReader
    from pbt.props.c02 import reset_state
    reset_state()
    fcase = case["file"]
    fmt = formats.FORMATS[fcase["fmt"]]
    data = formats.serialize(fcase)

    def read():
        return NpDataclassReader(NumpyFileReader(io.BytesIO(data), fmt.buffer), lazy=True).read()

    def written(t):
        out = io.BytesIO()
        NpBufferedWriter(out, fmt.buffer).write(t)
        return out.getvalue()
    try:
        ref = read()
        names = [f.name for f in dataclasses.fields(ref)]
        bytes_before = written(ref)
        rep_name = "start" if "start" in names else ("position" if "position" in names else None)
        colwise_before = written(bnp.replace(read(), **{rep_name: getattr(read(), rep_name) + 0})) if rep_name else None
        t = read()
        sub = t[case["slice"][0]:case["slice"][1]] if case.get("slice") else None
        values = {}
        for pos, i in enumerate(case["order"]):
            if sub is not None and pos == len(case["order"]) // 2:
                written(sub)          # writing a derived selection must not disturb the table it was taken from
            nm = names[i % len(names)]
            target = sub if (sub is not None and i % 3 == 0) else t
            try:
                v = snap(getattr(target, nm))
            except Exception as e:
                return [Failure(f"C20:field-access-raised:{fcase['fmt']}:{nm}:{type(e).__name__}:{_where(e)}", {"error": repr(e)[:300] + "/" + repr(e.__cause__)[:200]})]
            key = (nm, target is sub)
            if key in values and not same(values[key], v):
                return [Failure(f"C20:field-differs-on-second-access:{fcase['fmt']}:{nm}", {"first": values[key], "second": v})]
            values[key] = v
            # a fresh, untouched reader gives the reference value
        fresh = read()
        for (nm, is_sub), v in values.items():
            if not is_sub:
                r = snap(getattr(fresh, nm))
                fresh = read()
                if not same(r, v):
                    return [Failure(f"C20:field-value-depends-on-earlier-accesses:{fcase['fmt']}:{nm}", {"fresh": r, "after_other_accesses": v})]
        if len(ref) >= 2:
            # a row subset (every other row, and the rows in reverse) taken after the accesses writes what the same subset of an untouched chunk writes
            for how, sel in (("mask", np.arange(len(ref)) % 2 == 0), ("reversed", slice(None, None, -1))):
                if written(t[sel]) != written(read()[sel]):
                    return [Failure(f"C20:subset-bytes-changed-by-field-access:{fcase['fmt']}", {"subset": how, "untouched": written(read()[sel])[:300], "after_accesses": written(t[sel])[:300],
                                                                                          "accessed": [names[i % len(names)] for i in case["order"]]})]
        bytes_after = written(t)
        if bytes_after != bytes_before:
            return [Failure(f"C20:chunk-bytes-changed-by-field-access:{fcase['fmt']}", {"before": bytes_before[:300], "after": bytes_after[:300]})]
        if rep_name:
            colwise_after = written(bnp.replace(t, **{rep_name: getattr(t, rep_name) + 0}))
            if colwise_after != colwise_before:
                return [Failure(f"C20:column-wise-write-changed-by-field-access:{fcase['fmt']}", {"before": colwise_before[:300], "after": colwise_after[:300],
                                                                                               "accessed": [names[i % len(names)] for i in case["order"]]})]
        if rep_name and len(ref):
            # a chunk one of whose columns has been assigned is written, its other fields are inspected, and it is written again: the same bytes
            a = read()
            setattr(a, rep_name, getattr(read(), rep_name) + 1)
            w1 = written(a)
            looked = []
            for i in case["order"]:
                nm = names[i % len(names)]
                if nm != rep_name:
                    getattr(a, nm)
                    looked.append(nm)
            w2 = written(a)
            if w1 != w2:
                return [Failure(f"C20:assigned-chunk-bytes-changed-by-field-access:{fcase['fmt']}", {"assigned": rep_name, "accessed": looked, "before": w1[:300], "after": w2[:300]})]
            if stats is not None and looked:
                stats.extra["assigned_chunk_written_inspected_written"] = stats.extra.get("assigned_chunk_written_inspected_written", 0) + 1
        if rep_name:
            # a chunk that already carries a user-set column (set by assignment, or by an earlier replace) handed to bnp.replace for another column
            a = read()
            if case["order"][0] % 2:
                setattr(a, rep_name, getattr(a, rep_name) + 1)
            else:
                a = bnp.replace(a, **{rep_name: getattr(a, rep_name) + 1})
            other = next((nm for nm in names if nm != rep_name and isinstance(getattr(ref, nm), np.ndarray)
                          and np.issubdtype(getattr(ref, nm).dtype, np.integer)), None)
            if other is not None and len(ref):
                rows_before, bytes_before2 = snap(a), written(a)
                b1 = written(bnp.replace(a, **{other: getattr(a, other) + 5}))
                if not same(snap(a), rows_before) or written(a) != bytes_before2:
                    return [Failure(f"C20:input-modified:bnp.replace-on-chunk-with-a-set-column:{fcase['fmt']}", {"set_first": rep_name, "replaced": other,
                                                                                                          "before": bytes_before2[:300], "after": written(a)[:300]})]
                b2 = written(bnp.replace(a, **{other: getattr(a, other) + 5}))
                if b1 != b2:
                    return [Failure(f"C20:second-call-differs:bnp.replace-on-chunk-with-a-set-column:{fcase['fmt']}", {"first": b1[:300], "second": b2[:300]})]
                if stats is not None:
                    stats.extra["replace_on_chunk_with_a_set_column"] = stats.extra.get("replace_on_chunk_with_a_set_column", 0) + 1
    except Exception as e:  # noqa
        return [Failure(f"C20:lazy-raised:{fcase['fmt']}:{type(e).__name__}:{_where(e)}", {"error": repr(e)[:300]})]
    return []


def check(case, stats=None):
    if case.get("fmt") == "bam":
        # a lazily read BAM chunk: reading fields and writing selections must not change what the chunk and its selections return
        # afterwards (the same selection / read / write programs as C04, judged against the generated records)
        from pbt import bamprog
        fails, _ = bamprog.run(case, lazy=True, prefix="C20", stats=stats)
        return fails[:1]
    return check_call(case, stats) if case["kind"] == "call" else check_lazy(case, stats)


# ---------------------------------------------------------------------------------------

@st.composite
def call_case(draw, entry):
    S_ = draw(st.integers(4, 40))

    def iv():
        a = draw(st.integers(0, S_ - 1))
        return [a, draw(st.one_of(st.integers(a + 1, S_), st.just(S_)))]
    return {"kind": "call", "entry": entry, "view": draw(st.booleans()), "untouched": draw(st.booleans()), "S": S_, "d": draw(st.integers(0, 5)), "k": draw(st.integers(1, 5)),
            "int_texts": draw(st.lists(S.int_text(8, canonical=False), min_size=1, max_size=6)),
            "float_texts": draw(st.lists(S.float_text(canonical=False), min_size=1, max_size=6)),
            "ints": draw(st.lists(st.integers(-10 ** 12, 10 ** 12), min_size=1, max_size=6)),
            "int_lists": draw(st.lists(st.lists(st.integers(-999, 99999), max_size=4), min_size=1, max_size=5)),
            "words": draw(st.lists(st.text(alphabet="abcXYZ09_", min_size=0, max_size=6), min_size=1, max_size=6)),
            "dna": draw(st.lists(st.text(alphabet="ACGT", min_size=0, max_size=9), min_size=1, max_size=5)),
            "dna_mixed": draw(st.lists(st.text(alphabet="ACGTNacgtn", min_size=0, max_size=9), min_size=1, max_size=5)),
            "ivs": [iv() for _ in range(draw(st.integers(1, 6)))], "ivs2": [iv() for _ in range(draw(st.integers(1, 4)))],
            "strands": "".join(draw(st.lists(st.sampled_from("+-"), min_size=1, max_size=4)))}


@st.composite
def lazy_case(draw, variant):
    if variant == "vcf-typed":
        f = draw(S.vcf_case("vcf", 6, typed=True))
    elif variant == "vcfm":
        f = draw(S.vcf_case("vcfm", 6))
    else:
        f = draw(S.file_case(variant, 1, 6, 10, canonical=False))
    n = len(f["records"])
    case = {"kind": "lazy", "file": f, "order": draw(st.lists(st.integers(0, 40), min_size=1, max_size=14))}
    if n >= 2 and draw(st.booleans()):
        a = draw(st.integers(0, n - 1))
        case["slice"] = [a, draw(st.integers(a + 1, n))]
    return case


def task_calls(stats, known_open, entries, n, seed):
    import sys
    for j, e in enumerate(entries):
        core.run_hypothesis(sys.modules[__name__], call_case(e), stats, known_open, max_examples=n, seed=seed * 100 + j)


def task_lazy(stats, known_open, variant, n, seed):
    import sys
    core.run_hypothesis(sys.modules[__name__], lazy_case(variant), stats, known_open, max_examples=n, seed=seed)


def task_bam(stats, known_open, n, seed):
    import sys
    from pbt import bamprog
    core.run_hypothesis(sys.modules[__name__], bamprog.bam_case(6, 6), stats, known_open, max_examples=n, seed=seed)


def tasks(tier, seed):
    names = sorted(get_registry())
    n_call, n_lazy = (60, 120) if tier == "quick" else (1500, 2500)
    out = []
    shards = 12
    for s in range(shards):
        out.append(("task_calls", dict(entries=names[s::shards], n=n_call, seed=seed * 10 + s)))
    for i, v in enumerate(LAZY_FMTS):
        out.append(("task_lazy", dict(variant=v, n=n_lazy, seed=seed * 1000 + i)))
    for j in range(2 if tier == "quick" else 8):
        out.append(("task_bam", dict(n=150 if tier == "quick" else 1200, seed=seed * 1000 + 700 + j)))
    return out
