"""C08  Interval-set operations equal their per-base definitions."""
import itertools
import os
import traceback

from hypothesis import strategies as st

from pbt import core
from pbt.core import Failure

ID = "C08"
RULE = ("Interval multisets on one contig of size S (half-open, 0 <= a < b <= S): exhaustive for S = 1..6 with up to 3 intervals (every multiset, every "
        "merge distance 0..S, every strand assignment for extension over a seeded stride) and for pairs of multisets of up to 2 intervals each; "
        "Hypothesis for S up to 300 and up to 30 intervals biased to coincident endpoints, nesting, duplicates, position 0 and the last base. "
        "All functions are called on the same Interval objects in sequence and the inputs are compared with their snapshot after every call. "
        "Oracle: dense per-base arrays in plain Python. pileup == sum of indicators; mask == coverage > 0; merge == maximal runs of the union "
        "with interior gaps <= d filled; sort == ordered permutation; unique_intersect == entries of a overlapping the union of b, in order; "
        "jaccard / forbes == formulas on the 2x2 contingency table (skipped when a denominator is 0), on one contig and on a two-contig genome where a set may be absent from a contig; clip / extend_to_size == their definitions and "
        "inside [0, S]; count_overlap / intersect checked for values on internally non-overlapping sets and for determinism otherwise. "
        "Non-trivial: >= 2 intervals with a coincident endpoint, nesting or a duplicate, or an interval touching position 0 or the last base.")
ASSUMPTIONS = [
    "merge_intervals is given intervals sorted by start (its documented precondition); merging bridges gaps of length <= distance.",
    "count_overlap and intersect use a sort-based sweep that is only meaningful when each set is internally non-overlapping; with internal overlap only determinism and input preservation are checked.",
    "jaccard and forbes are not asserted when their denominator is zero.",
]
REQUIRED_CLASSES = ["coincident-endpoint", "nested", "duplicate", "touches-0", "touches-end", "empty-set", "merge-distance>0", "pair", "minus-strand",
                    "clip-out-of-bounds", "two-contigs", "set-absent-from-a-contig", "depth-over-127", "clip-interval-wholly-outside"]
BOUNDS = {"quick": "exhaustive: singles S<=6 (up to 3 intervals, all merge distances), pairs S<=5 (up to 2+2 intervals); 2000 sampled", "thorough": "exhaustive: singles S<=8, pairs S<=6 (2+2) and S<=4 (3+3); 20000 sampled (S<=300, up to 30 intervals)"}
BUDGET_S = {"quick": 200, "thorough": 1500}


def _where(e):
    tb = traceback.extract_tb(e.__traceback__)
    return next((f"{os.path.basename(fr.filename)}:{fr.name}" for fr in reversed(tb) if "/bionumpy/" in fr.filename), "?")


def make(ivs, strands=None, chrom="chr1"):
    import numpy as np
    from bionumpy.datatypes import Interval, StrandedInterval
    starts = np.array([a for a, b in ivs], dtype=int)
    stops = np.array([b for a, b in ivs], dtype=int)
    if strands is None:
        return Interval([chrom] * len(ivs), starts, stops)
    return StrandedInterval([chrom] * len(ivs), starts, stops, "".join(strands) if ivs else "")


def snap(t):
    out = [t.chromosome.tolist(), t.start.tolist(), t.stop.tolist()]
    if hasattr(t, "strand"):
        out.append(t.strand.to_string())
    return out


def pairs_of(t):
    return list(zip(t.start.tolist(), t.stop.tolist()))


def cover(ivs, S):
    c = [0] * S
    for a, b in ivs:
        for p in range(max(a, 0), min(b, S)):
            c[p] += 1
    return c


def runs(mask):
    out, start = [], None
    for i, m in enumerate(list(mask) + [False]):
        if m and start is None:
            start = i
        if not m and start is not None:
            out.append((start, i))
            start = None
    return out


def merged_model(ivs, S, d):
    m = [x > 0 for x in cover(ivs, S)]
    r = runs(m)
    out = []
    for a, b in r:
        if out and a - out[-1][1] <= d:
            out[-1] = (out[-1][0], b)
        else:
            out.append((a, b))
    return out


def disjoint(ivs):
    s = sorted(ivs)
    return all(s[i][1] <= s[i + 1][0] for i in range(len(s) - 1))


def intervals_of(case):
    """case['a'], with (case['deep'] = [index, times]) one of its intervals present that many more times: coverage far deeper than a handful."""
    a = [tuple(x) for x in case["a"]]
    if case.get("deep") and a:
        i, times = case["deep"]
        a = a + [a[i % len(a)]] * times
    return a


def classify(case):
    a, S = intervals_of(case), case["S"]
    cl = []
    if case.get("deep") and a:
        cl.append("depth-over-127" if case["deep"][1] >= 127 else "depth-over-20")
    ends = [p for iv in a for p in iv]
    if len(set(ends)) < len(ends):
        cl.append("coincident-endpoint")
    if any(x != y and x[0] <= y[0] and y[1] <= x[1] for x in a for y in a):
        cl.append("nested")
    if len(set(a)) < len(a):
        cl.append("duplicate")
    if any(x[0] == 0 for x in a):
        cl.append("touches-0")
    if any(x[1] == S for x in a):
        cl.append("touches-end")
    if not a:
        cl.append("empty-set")
    if case.get("b") is not None:
        cl.append("pair")
        if case.get("placement") and a and case["b"]:
            cl.append("two-contigs")
            if case["placement"] & 1:
                cl.append("set-absent-from-a-contig")
    if case.get("strands") and "-" in case["strands"]:
        cl.append("minus-strand")
    if case.get("distances") and max(case["distances"]) > 0:
        cl.append("merge-distance>0")
    if case.get("clip"):
        cl.append("clip-out-of-bounds")
        if any(y <= 0 or x >= S for x, y in case["clip"]):
            cl.append("clip-interval-wholly-outside")
    nontrivial = (len(a) >= 2 and any(c in cl for c in ("coincident-endpoint", "nested", "duplicate"))) or "touches-0" in cl or "touches-end" in cl
    return nontrivial, cl


def check(case, stats=None):
    import numpy as np
    from bionumpy import arithmetics as ar
    from bionumpy.datatypes import Interval
    from bionumpy.arithmetics import intervals as iv
    S = case["S"]
    a = intervals_of(case)
    out = []
    ta = make(a)
    before = snap(ta)

    def unchanged(name, t=None, ref=None):
        t = ta if t is None else t
        ref = before if ref is None else ref
        if snap(t) != ref:
            out.append(Failure(f"C08:input-modified:{name}", {"before": ref, "after": snap(t)}))
            return False
        return True

    def guard(name, fn):
        try:
            return fn()
        except Exception as e:  # noqa
            out.append(Failure(f"C08:raised:{name}:{type(e).__name__}:{_where(e)}", {"error": repr(e)[:300]}))
            return None

    cov = cover(a, S)
    # pileup / mask
    r = guard("get_pileup", lambda: np.asarray(ar.get_pileup(ta, S).to_array()).tolist())
    if r is not None and r != cov:
        out.append(Failure("C08:pileup", {"expected": cov, "actual": r}))
    unchanged("get_pileup")
    r = guard("get_boolean_mask", lambda: np.asarray(ar.get_boolean_mask(ta, S).to_array()).astype(bool).tolist())
    if r is not None and r != [c > 0 for c in cov]:
        out.append(Failure("C08:mask", {"expected": [c > 0 for c in cov], "actual": r}))
    unchanged("get_boolean_mask")
    if out:
        return out[:1]
    # sort
    order = case.get("order")
    if order:
        shuffled = [a[i % len(a)] for i in order] if a else []
        chroms = [("chr2", "chr1", "chr10")[i % 3] for i in order] if a else []
        tu = Interval(chroms, np.array([x[0] for x in shuffled], dtype=int), np.array([x[1] for x in shuffled], dtype=int))
        ref_u = snap(tu)
        r = guard("sort_intervals", lambda: ar.sort_intervals(tu))
        if r is not None:
            got = list(zip(r.chromosome.tolist(), r.start.tolist(), r.stop.tolist()))
            want = sorted(zip(chroms, [x[0] for x in shuffled], [x[1] for x in shuffled]))
            if got != want:
                out.append(Failure("C08:sort", {"expected": want, "actual": got}))
        unchanged("sort_intervals", tu, ref_u)
        if a:
            # the same table with its chromosome column encoded against a list of contig names (what a genome does to the tables it is given)
            from bionumpy.encodings.string_encodings import StringEncoding
            te = Interval(StringEncoding(["chr1", "chr10", "chr2"]).encode(chroms), np.array([x[0] for x in shuffled], dtype=int), np.array([x[1] for x in shuffled], dtype=int))
            r = guard("sort_intervals", lambda: ar.sort_intervals(te))
            if r is not None:
                got = list(zip([["chr1", "chr10", "chr2"][int(c)] for c in np.asarray(r.chromosome.raw()).tolist()], r.start.tolist(), r.stop.tolist()))
                if got != want:
                    out.append(Failure("C08:sort:contig-names-encoded", {"expected": want, "actual": got}))
    # merge with every requested distance, on the same sorted object
    sa = sorted(a)
    ts = make(sa)
    ref_s = snap(ts)
    for d in case.get("distances", [0]):
        r = guard("merge_intervals", lambda: pairs_of(ar.merge_intervals(ts, distance=d) if d else ar.merge_intervals(ts)))
        if r is not None and r != merged_model(sa, S, d):
            out.append(Failure("C08:merge", {"distance": d, "expected": merged_model(sa, S, d), "actual": r, "intervals": sa}))
        if not unchanged("merge_intervals", ts, ref_s) or out:
            return out[:1]
    # pileup again on the sorted object after all the merging
    r = guard("get_pileup", lambda: np.asarray(ar.get_pileup(ts, S).to_array()).tolist())
    if r is not None and r != cov:
        out.append(Failure("C08:pileup-after-merge", {"expected": cov, "actual": r}))
    # clip
    if case.get("clip"):
        raw = [tuple(x) for x in case["clip"]]
        tc = make(raw)
        ref_c = snap(tc)
        r = guard("clip", lambda: pairs_of(iv.clip(tc, S)))
        want = [(min(max(0, x), S), min(max(0, y), S)) for x, y in raw]        # (an interval wholly outside becomes an empty one at the nearer end)
        if r is not None and r != want:
            out.append(Failure("C08:clip", {"expected": want, "actual": r}))
        unchanged("clip", tc, ref_c)
    # strand-aware extension
    if case.get("strands") and a:
        strands = [case["strands"][i % len(case["strands"])] for i in range(len(a))]
        tst = make(a, strands)
        ref_st = snap(tst)
        for L in case.get("lengths", [1]):
            r = guard("extend_to_size", lambda: pairs_of(iv.extend_to_size(tst, L, S)))
            want = [(x, min(x + L, S)) if s == "+" else (max(y - L, 0), y) for (x, y), s in zip(a, strands)]
            if r is not None:
                if r != want:
                    out.append(Failure("C08:extend_to_size", {"length": L, "expected": want, "actual": r, "strands": strands}))
                elif any(x < 0 or y > S for x, y in r):
                    out.append(Failure("C08:extend-outside-contig", {"actual": r, "S": S}))
            unchanged("extend_to_size", tst, ref_st)
    # binary operations
    if case.get("b") is not None and not out:
        b = [tuple(x) for x in case["b"]]
        sb = sorted(b)
        tb_ = make(sb)
        ref_b = snap(tb_)
        covb = cover(b, S)
        both = sum(1 for x, y in zip(cov, covb) if x and y)
        # unique_intersect
        r = guard("unique_intersect", lambda: pairs_of(ar.unique_intersect(ts, tb_, S)))
        want = [x for x in sa if any(covb[p] for p in range(x[0], x[1]))]
        if r is not None and r != want:
            out.append(Failure("C08:unique_intersect", {"a": sa, "b": sb, "expected": want, "actual": r}))
        unchanged("unique_intersect", ts, ref_s)
        unchanged("unique_intersect", tb_, ref_b)
        # jaccard / forbes
        sizes = {"chr1": S}
        n11 = both
        n10 = sum(1 for x, y in zip(cov, covb) if x and not y)
        n01 = sum(1 for x, y in zip(cov, covb) if not x and y)
        n00 = S - n11 - n10 - n01
        if sa and sb:
            if S - n00 > 0:
                r = guard("jaccard", lambda: float(ar.jaccard(sizes, ts, tb_)))
                if r is not None and abs(r - n11 / (S - n00)) > 1e-12 * max(1.0, abs(r)):
                    out.append(Failure("C08:jaccard", {"expected": n11 / (S - n00), "actual": r, "a": sa, "b": sb}))
            elif stats is not None:
                stats.tolerant["jaccard-zero-denominator"] += 1
            if (n11 + n10) * (n11 + n01) > 0:
                r = guard("forbes", lambda: float(ar.forbes(sizes, ts, tb_)))
                want_f = n11 * S / ((n11 + n10) * (n11 + n01))
                if r is not None and abs(r - want_f) > 1e-12 * max(1.0, abs(want_f)):
                    out.append(Failure("C08:forbes", {"expected": want_f, "actual": r, "a": sa, "b": sb}))
            unchanged("jaccard/forbes", ts, ref_s)
            unchanged("jaccard/forbes", tb_, ref_b)
            # the same measures on a two-contig genome where a set may have no interval on one of the contigs:
            # placement bit 0: B lives on chr2 instead of chr1; bit 1: A also has B's intervals on chr2
            pl = case.get("placement", 0)
            if pl:
                two = {"chr1": S, "chr2": S}
                A = [("chr1",) + x for x in sa] + ([("chr2",) + x for x in sb] if pl & 2 else [])
                B = [("chr2" if pl & 1 else "chr1",) + x for x in sb]
                tA = Interval([x[0] for x in A], np.array([x[1] for x in A], dtype=int), np.array([x[2] for x in A], dtype=int))
                tB = Interval([x[0] for x in B], np.array([x[1] for x in B], dtype=int), np.array([x[2] for x in B], dtype=int))
                t11 = t10 = t01 = 0
                for c in two:
                    ca = cover([x[1:] for x in A if x[0] == c], S)
                    cb = cover([x[1:] for x in B if x[0] == c], S)
                    t11 += sum(1 for x, y in zip(ca, cb) if x and y)
                    t10 += sum(1 for x, y in zip(ca, cb) if x and not y)
                    t01 += sum(1 for x, y in zip(ca, cb) if not x and y)
                tot = 2 * S
                if t11 + t10 + t01 > 0:
                    r = guard("jaccard(two contigs)", lambda: float(ar.jaccard(two, tA, tB)))
                    if r is not None and abs(r - t11 / (t11 + t10 + t01)) > 1e-12:
                        out.append(Failure("C08:jaccard-two-contigs", {"expected": t11 / (t11 + t10 + t01), "actual": r, "A": A, "B": B, "S": S}))
                if (t11 + t10) * (t11 + t01) > 0:
                    r = guard("forbes(two contigs)", lambda: float(ar.forbes(two, tA, tB)))
                    want_f = t11 * tot / ((t11 + t10) * (t11 + t01))
                    if r is not None and abs(r - want_f) > 1e-12 * max(1.0, abs(want_f)):
                        out.append(Failure("C08:forbes-two-contigs", {"expected": want_f, "actual": r, "A": A, "B": B, "S": S}))
        # count_overlap / intersect
        r1 = guard("count_overlap", lambda: int(ar.count_overlap(ts, tb_)))
        r2 = guard("count_overlap", lambda: int(ar.count_overlap(ts, tb_)))
        i1 = guard("intersect", lambda: sorted(pairs_of(ar.intersect(ts, tb_)))) if (sa or sb) else []
        i2 = guard("intersect", lambda: sorted(pairs_of(ar.intersect(ts, tb_)))) if (sa or sb) else []
        if r1 != r2 or i1 != i2:
            out.append(Failure("C08:not-deterministic", {"count": [r1, r2], "intersect": [i1, i2]}))
        if disjoint(sa) and disjoint(sb) and sa and sb:
            if r1 is not None and r1 != both:
                out.append(Failure("C08:count_overlap", {"a": sa, "b": sb, "expected": both, "actual": r1}))
            want_i = sorted((max(x[0], y[0]), min(x[1], y[1])) for x in sa for y in sb if max(x[0], y[0]) < min(x[1], y[1]))
            if i1 is not None and i1 != want_i:
                out.append(Failure("C08:intersect", {"a": sa, "b": sb, "expected": want_i, "actual": i1}))
        elif stats is not None:
            stats.tolerant["sweep-with-internal-overlap:determinism-only"] += 1
        unchanged("count_overlap/intersect", ts, ref_s)
        unchanged("count_overlap/intersect", tb_, ref_b)
    return out[:1]


# ---------------------------------------------------------------------------------------

def all_intervals(S):
    return [(a, b) for a in range(S) for b in range(a + 1, S + 1)]


def single_cases(S, kmax, stride=1, offset=0):
    ivs = all_intervals(S)
    n = 0
    for k in range(0, kmax + 1):
        for ms in itertools.combinations_with_replacement(ivs, k):
            n += 1
            if (n + offset) % stride:
                continue
            case = {"S": S, "a": [list(x) for x in ms], "distances": list(range(0, S + 1)), "order": [2, 0, 1, 1][:max(1, k + 1)] if k else None,
                    "lengths": list(range(1, S + 2))}
            if k:
                strand_sets = list(itertools.product("+-", repeat=k))
                case["strands"] = "".join(strand_sets[n % len(strand_sets)])
                case["clip"] = [[x - (n % 3), y + ((n // 3) % 3)] for x, y in ms]
            yield case


def pair_cases(S, kmax, stride=1, offset=0):
    ivs = all_intervals(S)
    sets = [ms for k in range(0, kmax + 1) for ms in itertools.combinations_with_replacement(ivs, k)]
    n = 0
    for ma in sets:
        for mb in sets:
            n += 1
            if (n + offset) % stride:
                continue
            yield {"S": S, "a": [list(x) for x in ma], "b": [list(x) for x in mb], "distances": [0], "placement": n % 4}


def task_singles(stats, known_open, S, kmax, stride=1, offset=0):
    import sys
    core.run_enumeration(sys.modules[__name__], single_cases(S, kmax, stride, offset), stats, known_open, name=f"singles:S={S}:k<={kmax}")


def task_pairs(stats, known_open, S, kmax, stride=1, offset=0):
    import sys
    core.run_enumeration(sys.modules[__name__], pair_cases(S, kmax, stride, offset), stats, known_open, name=f"pairs:S={S}:k<={kmax}")


@st.composite
def sampled_case(draw, Smax, nmax):
    S = draw(st.integers(1, Smax))
    points = sorted(set(draw(st.lists(st.integers(0, S), min_size=2, max_size=8)) + [0, S]))

    def interval():
        if draw(st.booleans()) and len(points) >= 2:
            a, b = sorted(draw(st.lists(st.sampled_from(points), min_size=2, max_size=2, unique=True)))
        else:
            a = draw(st.integers(0, S - 1))
            b = draw(st.integers(a + 1, S))
        return [a, b]
    a = [interval() for _ in range(draw(st.integers(0, nmax)))]
    if a and draw(st.booleans()):
        a.append(list(a[draw(st.integers(0, len(a) - 1))]))
    case = {"S": S, "a": a, "distances": sorted(set(draw(st.lists(st.integers(0, S), min_size=1, max_size=3)) + [0])),
            "order": draw(st.lists(st.integers(0, 40), min_size=1, max_size=12)) if a else None,
            "lengths": draw(st.lists(st.integers(1, S + 2), min_size=1, max_size=2))}
    if a and draw(st.integers(0, 5)) == 0:
        # the same interval many times over: depths beyond a byte's range, and beyond a signed byte's
        case["deep"] = [draw(st.integers(0, len(a) - 1)), draw(st.sampled_from([20, 100, 126, 127, 128, 129, 200, 254, 255, 256, 257, 300, 600]))]
    if a:
        case["strands"] = "".join(draw(st.lists(st.sampled_from("+-"), min_size=1, max_size=6)))
        case["clip"] = [[x - draw(st.integers(0, 3)), y + draw(st.integers(0, 3))] for x, y in a[:6]]
        if draw(st.booleans()):
            d_, e_ = draw(st.integers(0, 3)), draw(st.integers(1, 4))
            case["clip"] += [[S + d_, S + d_ + e_], [-d_ - e_, -d_]]          # wholly beyond either end
    if draw(st.booleans()):
        if draw(st.booleans()):
            # internally non-overlapping pair (the documented domain of the sweep functions)
            def disjoint_set():
                cuts = sorted(set(draw(st.lists(st.integers(0, S), min_size=0, max_size=8))))
                return [[cuts[i], cuts[i + 1]] for i in range(0, len(cuts) - 1, 2)]
            case["a"] = disjoint_set()
            case["b"] = disjoint_set()
            case.pop("strands", None)
            case.pop("clip", None)
            case.pop("deep", None)
            case["order"] = None
        else:
            case["b"] = [interval() for _ in range(draw(st.integers(0, nmax)))]
        case["placement"] = draw(st.integers(0, 3))
    return case


def task_sampled(stats, known_open, n, seed, Smax, nmax):
    import sys
    core.run_hypothesis(sys.modules[__name__], sampled_case(Smax, nmax), stats, known_open, max_examples=n, seed=seed)


def tasks(tier, seed):
    out = []
    if tier == "quick":
        for S in range(1, 7):
            out.append(("task_singles", dict(S=S, kmax=3)))
        for S in (3, 4):
            out.append(("task_pairs", dict(S=S, kmax=2)))
        for off in range(8):
            out.append(("task_pairs", dict(S=5, kmax=2, stride=8, offset=off)))
        for j in range(8):
            out.append(("task_sampled", dict(n=250, seed=seed * 100 + j, Smax=60, nmax=12)))
    else:
        for S in range(1, 7):
            out.append(("task_singles", dict(S=S, kmax=3)))
        for S in (7, 8):
            for off in range(4):
                out.append(("task_singles", dict(S=S, kmax=3, stride=4, offset=off)))
        for S in (3, 4, 5):
            for off in range(4):
                out.append(("task_pairs", dict(S=S, kmax=2, stride=4, offset=off)))
        for off in range(16):
            out.append(("task_pairs", dict(S=6, kmax=2, stride=16, offset=off)))
        for off in range(16):
            out.append(("task_pairs", dict(S=4, kmax=3, stride=16, offset=off)))
        for j in range(16):
            out.append(("task_sampled", dict(n=1250, seed=seed * 100 + j, Smax=300, nmax=30)))
    return out
