"""C10  Genome-wide operations respect chromosome boundaries."""
import itertools
import os
import tempfile
import traceback

from hypothesis import strategies as st

from pbt import core
from pbt.core import Failure
from pbt.props import c08

ID = "C10"
RULE = ("Genomes of 1..4 chromosomes with sizes 1..S, with names where one is a prefix of another (chr1, chr10) and optionally one with an "
        "underscore (ignored by default, kept under keep_all), in an order where the underscore name need not be last. Interval and location sets "
        "per chromosome with emphasis on an interval ending exactly at a chromosome end followed by one starting at position 0 of the next, and "
        "on chromosomes without entries; entries are given in arbitrary order. Operations: get_mask (as a dense array and read back as intervals), get_pileup (also through the streamed per-chromosome evaluation of the sorted entries in two chunks), sorted, merged(d), clip, "
        "extended_to_size, get_location(start|stop|center), GenomicLocation.get_windows, GenomicArray[intervals] (reversed on '-'), "
        "GenomicSequence[intervals] through the dict backend and through an indexed FASTA written to disk (reverse complement on '-'), the "
        "Geometry helpers, and GlobalOffset conversions. Oracles: (a) the result for chromosome c equals the single-contig model applied to "
        "the entries of c alone (so entries of other chromosomes cannot influence it); (c) to_local(from_local(c, p)) == (c, p) for every valid "
        "(c, p), from_local(to_local(g)) == g for every g in [0, total), exhaustively per genome, and out-of-range positions raise. "
        "Non-trivial: >= 2 chromosomes and an entry touching a chromosome boundary (position 0 or the last base).")
ASSUMPTIONS = [
    "merged() is applied to sorted intervals (precondition of merging).",
    "Entries on ignored chromosomes are dropped by Genome.get_intervals / get_locations; the model does the same.",
]
REQUIRED_CLASSES = ["two-or-more-chromosomes", "ends-at-chromosome-end", "starts-at-0-of-next", "empty-chromosome", "prefix-names", "underscore-name",
                    "keep_all", "minus-strand", "boundary-pair", "covered-run-through-a-whole-chromosome", "sort-names-of-unsorted-input",
                    "intervals-built-with-from_fields"]
BOUNDS = {"quick": "exhaustive GlobalOffset bijection for every generated genome; 2000 sampled genomes with sizes up to 12",
          "thorough": "48000 sampled genomes with sizes up to 40"}
BUDGET_S = {"quick": 200, "thorough": 1500}

COMP = str.maketrans("ACGTN", "TGCAN")


def _where(e):
    tb = traceback.extract_tb(e.__traceback__)
    return next((f"{os.path.basename(fr.filename)}:{fr.name}" for fr in reversed(tb) if "/bionumpy/" in fr.filename), "?")


def included(case):
    inc = [(n, s) for n, s in case["genome"] if case["filter"] == "keep_all" or "_" not in n]
    # sort_names=True: the genome's order is the lexicographic order of the names, each name keeping its own size
    return sorted(inc) if case.get("sort_names") else inc


def classify(case):
    inc = included(case)
    names = [n for n, _ in inc]
    sizes = dict(inc)
    cl = [case["filter"]]
    if len(inc) >= 2:
        cl.append("two-or-more-chromosomes")
    if any(a != b and b.startswith(a) for a in names for b in names):
        cl.append("prefix-names")
    if any("_" in n for n, _ in case["genome"]):
        cl.append("underscore-name")
    if case.get("from_fields") and case["ivs"]:
        cl.append("intervals-built-with-from_fields")
    if case.get("sort_names") and [n for n, _ in case["genome"]] != sorted(n for n, _ in case["genome"]):
        cl.append("sort-names-of-unsorted-input")
    per = {n: [] for n in names}
    for ci, a, b, s in case["ivs"]:
        n = case["genome"][ci][0]
        if n in per:
            per[n].append((a, b, s))
    touch = False
    for i, n in enumerate(names):
        if not per[n]:
            cl.append("empty-chromosome")
        if any(b == sizes[n] for a, b, s in per[n]):
            cl.append("ends-at-chromosome-end")
            touch = True
            if i + 1 < len(names) and any(a == 0 for a, b, s in per[names[i + 1]]):
                cl.append("boundary-pair")
                if i + 2 < len(names) and any(a == 0 and b == sizes[names[i + 1]] for a, b, s in per[names[i + 1]]) and any(a == 0 for a, b, s in per[names[i + 2]]):
                    cl.append("covered-run-through-a-whole-chromosome")
        if i > 0 and any(a == 0 for a, b, s in per[n]):
            cl.append("starts-at-0-of-next")
            touch = True
        if any(a == 0 for a, b, s in per[n]):
            touch = True
    if any(s == "-" for _, _, _, s in case["ivs"]):
        cl.append("minus-strand")
    return len(inc) >= 2 and touch, sorted(set(cl))


def check(case, stats=None):
    import numpy as np
    import bionumpy as bnp
    from bionumpy.datatypes import Interval, StrandedInterval, LocationEntry, BedGraph
    from bionumpy.genomic_data.genome_context import keep_all, ignore_underscores
    from bionumpy.genomic_data.global_offset import GlobalOffset
    from bionumpy.genomic_data.geometry import Geometry
    from bionumpy.genomic_data.genomic_sequence import GenomicSequence
    out = []
    chrom_sizes = {n: s for n, s in case["genome"]}
    filt = keep_all if case["filter"] == "keep_all" else ignore_underscores
    inc = included(case)
    names = [n for n, _ in inc]
    sizes = dict(inc)
    if not names:
        return []
    sort_kw = {"sort_names": True} if case.get("sort_names") else {}
    genome = bnp.Genome.from_dict(chrom_sizes, filter_function=filt, **sort_kw)

    ivs_all = [(case["genome"][ci][0], a, b, s) for ci, a, b, s in case["ivs"]]
    ivs = [x for x in ivs_all if x[0] in sizes]
    per = {n: [(a, b, s) for c, a, b, s in ivs if c == n] for n in names}

    def guard(name, fn):
        try:
            return fn()
        except Exception as e:  # noqa
            out.append(Failure(f"C10:raised:{name}:{type(e).__name__}:{_where(e)}", {"error": repr(e)[:300]}))
            return None

    def mk(rows, stranded):
        ch = [r[0] for r in rows]
        st_ = np.array([r[1] for r in rows], dtype=int)
        en = np.array([r[2] for r in rows], dtype=int)
        if stranded:
            return StrandedInterval(ch, st_, en, "".join(r[3] for r in rows))
        return Interval(ch, st_, en)

    rows_of = _rows_of

    if case.get("from_fields") and ivs_all:
        # the other constructor: GenomicIntervals.from_fields(genome context, columns); entries on ignored chromosomes are dropped here too
        from bionumpy.genomic_data.genomic_intervals import GenomicIntervals
        from bionumpy.string_array import as_string_array
        ctx = genome.get_genome_context()
        cols_ = ([r[0] for r in ivs_all], np.array([r[1] for r in ivs_all], dtype=int), np.array([r[2] for r in ivs_all], dtype=int))
        gi = guard("from_fields", lambda: GenomicIntervals.from_fields(ctx, as_string_array(cols_[0]), cols_[1], cols_[2]))
        gis = guard("from_fields", lambda: GenomicIntervals.from_fields(ctx, as_string_array(cols_[0]), cols_[1], cols_[2],
                                                                        bnp.as_encoded_array("".join(r[3] for r in ivs_all), bnp.encodings.StrandEncoding)))
    else:
        gi = guard("get_intervals", lambda: genome.get_intervals(mk(ivs_all, False)))
        gis = guard("get_intervals", lambda: genome.get_intervals(mk(ivs_all, True), stranded=True))
    if gi is None or gis is None:
        return out[:1]
    # the included entries, in input order
    r = guard("rows", lambda: rows_of(gi))
    if r is not None and r != [(c, a, b) for c, a, b, s in ivs]:
        out.append(Failure("C10:get_intervals-entries", {"expected": [(c, a, b) for c, a, b, s in ivs], "actual": r}))
        return out[:1]

    # --- mask / pileup -----------------------------------------------------------------------
    for what in ("get_mask", "get_pileup"):
        d = guard(what, lambda: getattr(gi, what)().to_dict())
        if d is None:
            continue
        if list(d.keys()) != names:
            out.append(Failure(f"C10:{what}-chromosomes", {"expected": names, "actual": list(d.keys())}))
            continue
        for n in names:
            cov = c08.cover([(a, b) for a, b, s in per[n]], sizes[n])
            exp = [c > 0 for c in cov] if what == "get_mask" else cov
            got = np.asarray(d[n]).tolist()
            if got != exp:
                out.append(Failure(f"C10:{what}", {"chromosome": n, "expected": exp, "actual": got}))
                break
    if out:
        return out[:1]

    # --- the mask read back as intervals: maximal covered runs of each chromosome, none crossing a boundary -----------
    md = guard("get_mask().get_data()", lambda: gi.get_mask().get_data())
    if md is not None:
        got_runs = list(zip(_names(md.chromosome, names), np.asarray(md.start).tolist(), np.asarray(md.stop).tolist()))
        want_runs = []
        for n in names:
            cov = c08.cover([(a, b) for a, b, s in per[n]], sizes[n])
            start = None
            for p_, v_ in enumerate(list(cov) + [0]):
                if v_ and start is None:
                    start = p_
                elif not v_ and start is not None:
                    want_runs.append((n, start, p_))
                    start = None
        if got_runs != want_runs:
            out.append(Failure("C10:mask-as-intervals", {"expected": want_runs, "actual": got_runs}))
            return out[:1]

    # --- the same pileup through the streamed (per-chromosome) evaluation ------------------------------
    from bionumpy.streams import NpDataclassStream
    from bionumpy.datatypes import Interval as _Interval
    in_order = sorted(((c, a, b) for c, a, b, s in ivs), key=lambda t: (names.index(t[0]), t[1], t[2]))
    if in_order:
        cut = case.get("L", 1) % (len(in_order) + 1)
        chunks = [x for x in (in_order[:cut], in_order[cut:]) if x]

        def streamed_pileup():
            st_ = NpDataclassStream(iter([_Interval([r_[0] for r_ in ch], np.array([r_[1] for r_ in ch], dtype=int), np.array([r_[2] for r_ in ch], dtype=int))
                                          for ch in chunks]), dataclass=_Interval)
            data = bnp.compute(genome.get_intervals(st_).get_pileup().get_data())
            return list(zip(_names(data.chromosome, names), data.start.tolist(), data.stop.tolist(), np.asarray(data.value).tolist()))
        recs = guard("streamed get_pileup", streamed_pileup)
        if recs is not None:
            for n in names:
                dense = [0] * sizes[n]
                for _, s0, e0, v0 in [r_ for r_ in recs if r_[0] == n]:
                    for p_ in range(s0, e0):
                        dense[p_] = v0
                cov = c08.cover([(a, b) for a, b, s in per[n]], sizes[n])
                if dense != cov or not any(r_[0] == n for r_ in recs):
                    out.append(Failure("C10:streamed-pileup", {"chromosome": n, "expected": cov, "records": [r_ for r_ in recs if r_[0] == n]}))
                    break
    if out:
        return out[:1]

    # --- sorted / merged -----------------------------------------------------------------------
    # (the table of the interval set, contig names encoded against the genome, through the plain sorting function)
    srt_fn = guard("sort_intervals(genome-encoded)", lambda: rows_of(bnp.arithmetics.sort_intervals(gi.get_data())))
    srt = guard("sorted", lambda: gi.sorted())
    want_sorted = sorted(((c, a, b) for c, a, b, s in ivs), key=lambda t: (names.index(t[0]), t[1], t[2]))
    if srt_fn is not None and srt_fn != want_sorted:
        out.append(Failure("C10:sort_intervals-on-the-encoded-table", {"expected": want_sorted, "actual": srt_fn}))
    if srt is not None:
        r = guard("sorted", lambda: rows_of(srt))
        if r is not None and r != want_sorted:
            out.append(Failure("C10:sorted", {"expected": want_sorted, "actual": r}))
        if not out and ivs:
            # the interval set taken back from the mask (its runs, i.e. the merged intervals), sorted: genome order again
            from bionumpy.genomic_data.genomic_intervals import GenomicIntervals
            ft = guard("from_track(mask).sorted", lambda: rows_of(GenomicIntervals.from_track(gi.get_mask()).sorted()))
            want_ft = [(n, a, b) for n in names for a, b in c08.merged_model([(a, b) for a, b, s in per[n]], sizes[n], 0)]
            if ft is not None and ft != want_ft:
                out.append(Failure("C10:from-track-sorted", {"expected": want_ft, "actual": ft}))
        if not out and ivs:
            for d in case["distances"]:
                m = guard(f"merged({'0' if d == 0 else '>0'})", lambda: rows_of(srt.merged(d) if d else srt.merged()))
                want = [(n, a, b) for n in names for a, b in c08.merged_model([(a, b) for a, b, s in per[n]], sizes[n], d)]
                if m is not None and m != want:
                    out.append(Failure(f"C10:merged({'0' if d == 0 else '>0'})", {"distance": d, "expected": want, "actual": m, "input": want_sorted}))
                    break
    if out:
        return out[:1]

    # --- clip (on a widened copy) / extended_to_size / get_location ------------------------------------------------
    if ivs:
        wide = [(c, a - case["widen"][i % len(case["widen"])][0], b + case["widen"][i % len(case["widen"])][1], s) for i, (c, a, b, s) in enumerate(ivs)]
        # (and, for the first two chromosomes that have an entry, one interval wholly beyond the end and one wholly before the start)
        for c in list(dict.fromkeys(c for c, _, _, _ in ivs))[:2]:
            wide += [(c, sizes[c] + 1, sizes[c] + 3, "+"), (c, -4, -1, "-")]
        cl = guard("clip", lambda: rows_of(bnp.genomic_data.genomic_intervals.GenomicIntervalsFull(
            genome._genome_context.mask_data(mk(wide, False)), genome._genome_context).clip()))
        want = [(c, min(max(0, a), sizes[c]), min(max(0, b), sizes[c])) for c, a, b, s in wide]
        if cl is not None and cl != want:
            out.append(Failure("C10:clip", {"expected": want, "actual": cl}))
        L = case["L"]
        ex = guard("extended_to_size", lambda: rows_of(gis.extended_to_size(L)))
        want = [(c, a, min(a + L, sizes[c])) if s == "+" else (c, max(b - L, 0), b) for c, a, b, s in ivs]
        if ex is not None and ex != want:
            out.append(Failure("C10:extended_to_size", {"L": L, "expected": want, "actual": ex, "input": ivs}))
        for where in ("start", "stop", "center"):
            for stranded, g in ((False, gi), (True, gis)):
                loc = guard(f"get_location({where})", lambda: g.get_location(where))
                if loc is None:
                    continue
                got = guard(f"get_location({where})", lambda: list(zip(_names(loc.chromosome, names), np.asarray(loc.position).tolist())))
                if where == "center":
                    want = [(c, (a + b) // 2) for c, a, b, s in ivs]
                elif not stranded:
                    want = [(c, a if where == "start" else b - 1) for c, a, b, s in ivs]
                else:
                    want = [(c, (a if s == "+" else b - 1) if where == "start" else (b - 1 if s == "+" else a)) for c, a, b, s in ivs]
                if got is not None and got != want:
                    out.append(Failure(f"C10:get_location:{where}:{'stranded' if stranded else 'unstranded'}", {"expected": want, "actual": got, "input": ivs}))
    if out:
        return out[:1]

    # --- windows around locations ------------------------------------------------------------------------
    locs_all = [(case["genome"][ci][0], p) for ci, p in case["locs"]]
    locs = [x for x in locs_all if x[0] in sizes]
    if locs_all:
        gl = guard("get_locations", lambda: genome.get_locations(LocationEntry([c for c, p in locs_all], np.array([p for c, p in locs_all], dtype=int))))
        if gl is not None:
            fl = case["flank"]
            w = guard("get_windows", lambda: rows_of(gl.get_windows(flank=fl)))
            want = [(c, max(0, p - fl), min(sizes[c], p + fl + 1)) for c, p in locs]
            if w is not None and w != want:
                out.append(Failure("C10:get_windows", {"flank": fl, "expected": want, "actual": w}))
            # locations mapped into the intervals that contain them (half open: start <= p < stop, same chromosome), as positions relative to the interval start
            if locs == locs_all and ivs == ivs_all and ivs:
                slocs = sorted(locs, key=lambda t: (names.index(t[0]), t[1]))

                def mapped():
                    m_ = gi.map_locations(LocationEntry([c for c, p in slocs], np.array([p for c, p in slocs], dtype=int)))
                    return list(zip(m_.chromosome.tolist(), np.asarray(m_.position).tolist()))
                got_m = guard("map_locations", mapped)
                want_m = [(str(i_), p - a) for i_, (c, a, b, s_) in enumerate(ivs) for c2, p in slocs if c2 == c and a <= p < b]
                if got_m is not None and got_m != want_m:
                    out.append(Failure("C10:map_locations", {"expected": want_m, "actual": got_m, "intervals": [x[:3] for x in ivs], "locations": slocs}))
            # binned counts: every chromosome has its own bins of the given width (the last one possibly shorter), filled by its own locations only
            if locs == locs_all:
                from bionumpy.genomic_data.binned_genome import BinnedGenome
                bs = max(1, case.get("bin_size", 3))

                def binned():
                    b = BinnedGenome(genome.get_genome_context(), bs)
                    b.count(LocationEntry([c for c, p in locs], np.array([p for c, p in locs], dtype=int)))
                    return {k_: np.asarray(v_).tolist() for k_, v_ in b.count_dict.items()}
                bd = guard("BinnedGenome.count", binned)
                want_b = {n: [sum(1 for c, p in locs if c == n and p // bs == j) for j in range((sizes[n] + bs - 1) // bs)] for n in names}
                if bd is not None and bd != want_b:
                    out.append(Failure("C10:binned-counts", {"bin_size": bs, "expected": want_b, "actual": bd, "locations": locs}))
            s_ = guard("locations.sorted", lambda: (lambda x: list(zip(_names(x.chromosome, names), np.asarray(x.position).tolist())))(gl.sorted()))
            want = sorted(locs, key=lambda t: (names.index(t[0]), t[1]))
            if s_ is not None and s_ != want:
                out.append(Failure("C10:locations-sorted", {"expected": want, "actual": s_}))
    if out:
        return out[:1]

    # --- values of a track and of the sequence under intervals --------------------------------------------------------
    if ivs:
        dense = {n: [(i * 7 + 3 * k) % 11 for i in range(sizes[n])] for k, n in enumerate(names)}
        bg_rows = [(n, i, i + 1, dense[n][i]) for n in names for i in range(sizes[n])]
        track = guard("get_track", lambda: genome.get_track(BedGraph([r[0] for r in bg_rows], np.array([r[1] for r in bg_rows]),
                                                                     np.array([r[2] for r in bg_rows]), np.array([r[3] for r in bg_rows], dtype=int))))
        if track is not None:
            for stranded, g in ((False, gi), (True, gis)):
                v = guard("track[intervals]", lambda: [np.asarray(row.to_array() if hasattr(row, "to_array") else row).tolist() for row in track[g]])
                want = [dense[c][a:b][::-1] if (stranded and s == "-") else dense[c][a:b] for c, a, b, s in ivs]
                if v is not None and v != want:
                    out.append(Failure(f"C10:track-under-intervals:{'stranded' if stranded else 'unstranded'}", {"expected": want, "actual": v, "input": ivs}))
        seqs = {n: "".join("ACGTN"[(i * 3 + k * 5 + (i // 4)) % 5] for i in range(sz)) for k, (n, sz) in enumerate(case["genome"])}

        def want_seq(stranded):
            return [seqs[c][a:b].translate(COMP)[::-1] if (stranded and s == "-") else seqs[c][a:b] for c, a, b, s in ivs]
        gs = guard("GenomicSequence.from_dict", lambda: GenomicSequence.from_dict({n: seqs[n] for n in names}))
        if gs is not None:
            for stranded, g in ((False, gi), (True, gis)):
                v = guard("sequence[intervals]:dict", lambda: [x.upper() for x in gs[g].tolist()])
                if v is not None and v != want_seq(stranded):
                    out.append(Failure(f"C10:sequence-under-intervals:dict:{'stranded' if stranded else 'unstranded'}", {"expected": want_seq(stranded), "actual": v}))
        if case.get("fasta"):
            with tempfile.TemporaryDirectory(prefix="pbtc10") as d:
                path = os.path.join(d, "g.fa")
                wrap = case["fasta"]
                with open(path, "w") as f:
                    for n, _ in case["genome"]:
                        f.write(">" + n + "\n" + "".join(seqs[n][i:i + wrap] + "\n" for i in range(0, len(seqs[n]), wrap)))
                g2 = guard("Genome.from_file", lambda: bnp.Genome.from_file(path, filter_function=filt, **sort_kw))
                if g2 is not None:
                    gseq = guard("read_sequence", lambda: g2.read_sequence())
                    gi2 = guard("get_intervals", lambda: g2.get_intervals(mk(ivs_all, True), stranded=True))
                    if gseq is not None and gi2 is not None:
                        v = guard("sequence[intervals]:fasta", lambda: [x.upper() for x in gseq[gi2].tolist()])
                        if v is not None and v != want_seq(True):
                            out.append(Failure("C10:sequence-under-intervals:fasta", {"expected": want_seq(True), "actual": v, "input": ivs,
                                                                                      "fasta_order": [n for n, _ in case["genome"]]}))
    if out:
        return out[:1]

    # --- Geometry helpers (genome without ignored names) ---------------------------------------------------------------------
    # (Geometry always ignores names with an underscore)
    names_all, ivs_all_inc, per_all = names, ivs, per
    names = [n for n in names if "_" not in n]
    ivs = [x for x in ivs if "_" not in x[0]]
    geo = guard("Geometry", lambda: Geometry({n: sizes[n] for n in names})) if names else None
    if geo is not None and ivs:
        t_sorted = mk(sorted(ivs, key=lambda t: (names.index(t[0]), t[1], t[2])), False)
        for what in ("get_mask", "get_pileup"):
            d = guard(f"Geometry.{what}", lambda: getattr(geo, what)(mk(ivs, False)).to_dict())
            if d is not None:
                for n in names:
                    cov = c08.cover([(a, b) for a, b, s in per[n]], sizes[n])
                    exp = [c > 0 for c in cov] if what == "get_mask" else cov
                    if np.asarray(d[n]).tolist() != exp:
                        out.append(Failure(f"C10:Geometry.{what}", {"chromosome": n, "expected": exp, "actual": np.asarray(d[n]).tolist()}))
                        break
        m = guard("Geometry.merge_intervals", lambda: rows_of(geo.merge_intervals(t_sorted)))
        want = [(n, a, b) for n in names for a, b in c08.merged_model([(a, b) for a, b, s in per[n]], sizes[n], 0)]
        if m is not None and _decode_rows(m, names) != want:
            out.append(Failure("C10:Geometry.merge_intervals", {"expected": want, "actual": _decode_rows(m, names), "input": rows_of(t_sorted)}))
        ex = guard("Geometry.extend_to_size", lambda: rows_of(geo.extend_to_size(mk(ivs, True), case["L"])))
        want = [(c, a, min(a + case["L"], sizes[c])) if s == "+" else (c, max(b - case["L"], 0), b) for c, a, b, s in ivs]
        if ex is not None and ex != want:
            out.append(Failure("C10:Geometry.extend_to_size", {"expected": want, "actual": ex}))
    if out:
        return out[:1]

    # --- GlobalOffset bijection, exhaustive over the genome -----------------------------------------------------------------------
    names, ivs = names_all, ivs_all_inc
    go = guard("GlobalOffset", lambda: GlobalOffset({n: s for n, s in inc}))
    if go is not None:
        total = sum(sizes.values())
        offs = {}
        acc = 0
        for n in names:
            offs[n] = acc
            acc += sizes[n]
        pairs = [(n, p) for n in names for p in range(sizes[n])]
        g = guard("from_local_coordinates", lambda: go.from_local_coordinates([n for n, p in pairs], np.array([p for n, p in pairs], dtype=int)).tolist())
        if g is not None and g != [offs[n] + p for n, p in pairs]:
            out.append(Failure("C10:from_local_coordinates", {"expected": [offs[n] + p for n, p in pairs], "actual": g}))
        back = guard("to_local_coordinates", lambda: go.to_local_coordinates(np.arange(total)))
        if back is not None:
            got = list(zip(_names(back[0], names), np.asarray(back[1]).tolist()))
            if got != pairs:
                out.append(Failure("C10:to_local_coordinates", {"expected": pairs, "actual": got}))
        for n in names:
            try:
                r = go.from_local_coordinates([n], np.array([sizes[n]], dtype=int))
                out.append(Failure("C10:out-of-range-position-accepted", {"chromosome": n, "position": sizes[n], "result": np.asarray(r).tolist()}))
            except Exception:
                pass
    return out[:1]


def _names(chrom_col, names):
    """decode a chromosome column (string array or string-encoded array) to names"""
    enc = getattr(chrom_col, "encoding", None)
    if enc is not None and hasattr(enc, "get_labels"):
        labels = enc.get_labels()
        import numpy as np
        return [labels[int(i)] for i in np.atleast_1d(chrom_col.raw()).tolist()]
    return chrom_col.tolist()


def _decode_rows(rows, names):
    return [(r[0] if isinstance(r[0], str) else names[int(r[0])],) + tuple(r[1:]) for r in rows]


# overwrite rows_of's fragile decoding with the helper above
def _rows_of(gi, stranded=False):
    d = gi.get_data() if hasattr(gi, "get_data") else gi
    base = list(zip(_names(d.chromosome, None), d.start.tolist(), d.stop.tolist()))
    if stranded:
        return [b + (s,) for b, s in zip(base, d.strand.to_string())]
    return base


# ---------------------------------------------------------------------------------------

NAME_SETS = [["chr1"], ["chr1", "chr10"], ["chr1", "chr10", "chr2"], ["chr1", "chr1_alt", "chr10", "chr2"], ["chr1_alt", "chr1", "chr2"],
             ["chr2", "chr10", "chr1"], ["chr1", "chr2", "chr2_random"], ["a", "ab", "abc", "b"]]


@st.composite
def c10_case(draw, Smax):
    names = draw(st.sampled_from(NAME_SETS))
    genome = [[n, draw(st.integers(1, Smax))] for n in names]
    filt = draw(st.sampled_from(["ignore_underscores", "ignore_underscores", "keep_all"]))
    ivs = []
    for ci, (n, size) in enumerate(genome):
        k = draw(st.sampled_from([0, 1, 1, 2, 3]))
        for _ in range(k):
            mode = draw(st.integers(0, 4))
            if mode == 0:
                a, b = 0, draw(st.integers(1, size))
            elif mode == 1:
                a = draw(st.integers(0, size - 1))
                b = size
            else:
                a = draw(st.integers(0, size - 1))
                b = draw(st.integers(a + 1, size))
            ivs.append([ci, a, b, draw(st.sampled_from("+-"))])
    # a boundary pair: one interval ending at a chromosome end, the next chromosome starting at 0
    if len(genome) >= 2 and draw(st.booleans()):
        i = draw(st.integers(0, len(genome) - 2))
        ivs.append([i, max(0, genome[i][1] - draw(st.integers(1, 3))), genome[i][1], "+"])
        ivs.append([i + 1, 0, min(genome[i + 1][1], draw(st.integers(1, 3))), "-"])
    # a covered stretch that runs through a whole chromosome: end of i, all of i+1, start of i+2
    if len(genome) >= 3 and draw(st.integers(0, 2)) == 0:
        i = draw(st.integers(0, len(genome) - 3))
        ivs.append([i, max(0, genome[i][1] - draw(st.integers(1, 2))), genome[i][1], "+"])
        ivs.append([i + 1, 0, genome[i + 1][1], "-"])
        ivs.append([i + 2, 0, min(genome[i + 2][1], draw(st.integers(1, 2))), "+"])
    ivs = draw(st.permutations(ivs))
    locs = [[ci, draw(st.sampled_from([0, size - 1, draw(st.integers(0, size - 1))]))] for ci, (n, size) in enumerate(genome) for _ in range(draw(st.integers(0, 2)))]
    locs = draw(st.permutations(locs))
    case = {"genome": genome, "filter": filt, "ivs": [list(x) for x in ivs], "locs": [list(x) for x in locs],
            "distances": sorted({0, draw(st.integers(1, 4))}), "L": draw(st.integers(1, Smax + 2)), "flank": draw(st.integers(0, 4)), "bin_size": draw(st.integers(1, 7)),
            "widen": [[draw(st.integers(0, 3)), draw(st.integers(0, 3))] for _ in range(3)]}
    if draw(st.integers(0, 2)) == 0:
        case["fasta"] = draw(st.integers(1, 9))
    if draw(st.integers(0, 4)) == 0:
        case["sort_names"] = True
    if draw(st.integers(0, 3)) == 0:
        case["from_fields"] = True
    return case


def task_sampled(stats, known_open, n, seed, Smax):
    import sys
    core.run_hypothesis(sys.modules[__name__], c10_case(Smax), stats, known_open, max_examples=n, seed=seed)


def tasks(tier, seed):
    if tier == "quick":
        return [("task_sampled", dict(n=250, seed=seed * 100 + j, Smax=12)) for j in range(8)]
    return [("task_sampled", dict(n=1500, seed=seed * 100 + j, Smax=40)) for j in range(32)]
