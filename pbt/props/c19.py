"""C19  Tables of entries behave like column-aligned NumPy records."""
import copy
import dataclasses
import os
import traceback

from hypothesis import strategies as st

from pbt import core, formats
from pbt.core import Failure
from pbt.props import c03

ID = "C19"
RULE = ("A program of table operations over a pool of (table, list-of-tuples model) pairs. Table types: Interval, Bed6, Bed12, BedGraph, NarrowPeak, "
        "ChromosomeSize, SequenceEntry, SequenceEntryWithQuality, SAMEntry, GTFEntry, PairsEntry, VCFWithInfoAsStringEntry and BamEntry (CIGAR lengths up to 2^28 in a numerically encoded ragged column, given as lists of rows) from bionumpy.datatypes, and "
        "classes made with make_dataclass over str, SequenceID, int, float, bool, Optional[int], List[int], a DNA-encoded column and a nested table; "
        "0..N rows; for Interval, Bed6, SAM, VCF, FASTQ and two-line FASTA a third of the initial tables are written with the library's writer and read back lazily, so the program runs on a table as it comes out of a file. Numeric columns are given in varying but valid dtypes (Python ints, int32, uint8, whole-number floats as ints). Operations: len, "
        "index with integer, slice, boolean mask, integer list, np.concatenate, sort_by(column), iteration, bnp.replace, add_fields, tolist, todict, from_dict(todict()), "
        "topandas -> from_data_frame, from_entry_tuples, construction with a foreign character in an encoded column, construction with columns of "
        "different lengths. Oracle after every step: every column has the table's length; tolist()/rows equal the model rows; every operand still "
        "equals its snapshot; from_entry_tuples(rows), from_dict(todict()) and from_data_frame(topandas()) reproduce the table; invalid constructions raise. "
        "Non-trivial: >= 2 steps on a table with at least two column representations (ndarray and ragged/encoded), including an empty or single-row operand.")
ASSUMPTIONS = [
    "sort_by is checked as an ordered permutation (stability is not claimed) and only on numeric and flat encoded columns; on a string-array column NumPy's argsort is not implemented and a TypeError is a tolerant class.",
    "Passing text to a numeric column is not asserted either way (construction only documents np.asanyarray for numbers).",
    "pandas round trips are checked for column types pandas can carry (no list-valued or quality columns).",
]
REQUIRED_CLASSES = ["table-read-from-file", "dict-roundtrip", "bam", "concat", "sort_by", "replace", "add_fields", "pandas", "from_entry_tuples", "bad-construction", "empty-operand", "single-row-operand",
                    "dynamic-class", "nested-table", "mixed-dtype-concat", "int-index", "rows-taken-by-tolist-first", "text-column-given-as-64-bit-character-codes", "results-reach-later-steps-unread", "concatenation-starting-from-an-empty-table",
                    "nested-table-in-a-table-or-text-column"]
BOUNDS = {"quick": "300 programs of up to 12 steps for each of 17 table types, tables of up to 6 rows", "thorough": "4000 programs of up to 30 steps per type, tables of up to 20 rows"}
BUDGET_S = {"quick": 200, "thorough": 1500}

# types without float columns that are read lazily from their text format: used for the 'table as read from a file' variant
FILE_TYPES = ("interval", "bed6", "sam", "vcf", "fastq", "fasta2")
STATIC = ["interval", "bed6", "bed12", "bedgraph", "narrowpeak", "chromsizes", "fasta2", "fastq", "sam", "gtf", "pairs", "vcf", "bam"]
# table types that are not in the C03 list (no text writer): name -> (dataclass path, column kinds)
EXTRA = {
    "bam": ("bionumpy.datatypes.BamEntry",
            [("chromosome", "id"), ("name", "id"), ("flag", "uint16"), ("position", "pos"), ("mapq", "uint8"), ("cigar_op", "cigarop"),
             ("cigar_length", "numlist"), ("sequence", "bamseq"), ("quality", "qual")]),
}
DYNAMIC = {
    "dyn_mixed": [("label", "str"), ("ident", "id"), ("count", "int"), ("weight", "float"), ("flag", "bool"), ("opt", "int"), ("items", "ilist"), ("dna", "dna")],
    "dyn_numeric": [("a", "int"), ("b", "float"), ("c", "bool")],
    "dyn_nested": [("name", "id"), ("where", "nested"), ("score", "float")],
    # a column declared as 'a table or text' (the way VCFEntry declares its INFO column) that holds a table
    "dyn_nested_union": [("name", "id"), ("filter", "str"), ("where", "nested")],
}


def _where(e):
    tb = traceback.extract_tb(e.__traceback__)
    return next((f"{os.path.basename(fr.filename)}:{fr.name}" for fr in reversed(tb) if "/bionumpy/" in fr.filename), "?")


def kinds_of(tname):
    if tname in DYNAMIC:
        return DYNAMIC[tname]
    if tname in EXTRA:
        return EXTRA[tname][1]
    return c03.TYPES[tname][3]


_DYN_CACHE = {}


def dataclass_of(tname):
    import bionumpy as bnp
    from typing import List, Optional
    from bionumpy.bnpdataclass import make_dataclass
    from bionumpy.typing import SequenceID
    from bionumpy.datatypes import Interval
    if tname in EXTRA:
        return c03._load(EXTRA[tname][0])
    if tname not in DYNAMIC:
        return c03._load(c03.TYPES[tname][0])
    if tname not in _DYN_CACHE:
        tmap = {"str": str, "id": SequenceID, "int": int, "float": float, "bool": bool, "ilist": List[int], "dna": bnp.DNAEncoding, "nested": Interval}
        if tname == "dyn_nested_union":
            from typing import Union
            from bionumpy.bnpdataclass import BNPDataClass
            tmap["nested"] = Union[BNPDataClass, str]
        fields = [(n, Optional[int] if n == "opt" else tmap[k]) for n, k in DYNAMIC[tname]]
        _DYN_CACHE[tname] = make_dataclass(fields, "Dyn" + tname)
    return _DYN_CACHE[tname]


def build(tname, rows, dtype_variant=0):
    import numpy as np
    import bionumpy as bnp
    from npstructures import RaggedArray
    from bionumpy.encodings import QualityEncoding, StrandEncoding
    from bionumpy.datatypes import Interval
    dc = dataclass_of(tname)
    cols = []
    for j, (name, kind) in enumerate(kinds_of(tname)):
        vals = [r[j] for r in rows]
        if kind in ("uint16", "uint8"):
            cols.append(np.array(vals, dtype=int))
        elif kind == "numlist":
            # numbers of a numerically encoded ragged column, given as a list of rows (lists, or arrays as todict() returns them)
            cols.append([np.array(v, dtype=int) for v in vals] if dtype_variant % 2 else [list(v) for v in vals])
        elif kind in ("int", "uint", "pos"):
            dt = [np.int64, np.int32, np.int64][dtype_variant % 3]
            if dtype_variant % 3 == 1 and any(abs(v) >= 2 ** 31 for v in vals):
                dt = np.int64
            cols.append(np.array(vals, dtype=dt) if dtype_variant % 3 else list(vals) if vals else np.array([], dtype=int))
        elif kind == "float":
            if dtype_variant % 2 == 1 and vals and all(float(v).is_integer() and abs(v) < 2 ** 40 and repr(float(v)) != "-0.0" for v in vals):
                cols.append(np.array([int(v) for v in vals], dtype=np.int64))       # whole numbers given as ints
            else:
                cols.append(np.array(vals, dtype=np.float64))
        elif kind == "bool":
            cols.append(np.array(vals, dtype=bool))
        elif kind == "ilist":
            cols.append(RaggedArray([list(v) for v in vals]) if vals else RaggedArray(np.array([], dtype=int), np.array([], dtype=int)))
        elif kind == "qual":
            cols.append(bnp.as_encoded_array(list(vals), QualityEncoding) if vals else bnp.as_encoded_array([], QualityEncoding))
        elif kind == "strand":
            cols.append(bnp.as_encoded_array("".join(vals), StrandEncoding))
        elif kind == "nested":
            cols.append(Interval([v[0] for v in vals], np.array([v[1] for v in vals], dtype=int), np.array([v[2] for v in vals], dtype=int)))
        elif kind in ("str", "seq", "seq1") and dtype_variant == 2 and vals and all(ord(c) < 128 for v in vals for c in v):
            # the text handed over as character codes held in a 64-bit array (what np.array([ord(c) ...]) gives), wrapped as plain-text encoded data
            from bionumpy.encoded_array import EncodedArray, EncodedRaggedArray, BaseEncoding
            codes = np.array([ord(c) for v in vals for c in v], dtype=np.int64)
            cols.append(EncodedRaggedArray(EncodedArray(codes, BaseEncoding), [len(v) for v in vals]))
        else:
            cols.append(list(vals))
    return dc(*cols)


def model_rows(tname, rows):
    out = []
    for r in rows:
        row = []
        for (n, k), v in zip(kinds_of(tname), r):
            if k == "qual":
                row.append([ord(c) - 33 for c in v])
            elif k in ("ilist", "numlist"):
                row.append([int(x) for x in v])
            elif k in ("uint16", "uint8"):
                row.append(int(v))
            elif k == "float":
                row.append(float(v))
            elif k == "bool":
                row.append(bool(v))
            elif k in ("int", "uint", "pos"):
                row.append(int(v))
            elif k == "nested":
                row.append((v[0], int(v[1]), int(v[2])))
            else:
                row.append(v)
        out.append(tuple(row))
    return out


def actual_rows(table):
    rows = formats.table_rows(table)
    return [tuple(tuple(x) if isinstance(x, tuple) else x for x in r) for r in rows]


def entry_tuple(e):
    """One entry of tolist() as a tuple of plain values (a nested entry becomes a tuple too)."""
    vals = []
    for f in dataclasses.fields(e):
        v = getattr(e, f.name)
        if dataclasses.is_dataclass(v):
            v = entry_tuple(v)
        elif hasattr(v, "tolist") and not isinstance(v, (str, bytes)):
            v = v.tolist()
        vals.append(v)
    return tuple(vals)


def columns_aligned(table):
    n = len(table)
    for f in dataclasses.fields(table):
        if len(getattr(table, f.name)) != n:
            return f.name
    return None


def classify(case):
    tname = case["type"]
    names = [op["op"] for op in case["program"]]
    cl = [tname]
    for k in ("concat", "sort_by", "replace", "add_fields", "pandas", "from_entry_tuples", "bad-construction", "dict-roundtrip"):
        if k in names:
            cl.append(k)
    if "int" in names:
        cl.append("int-index")
    if case.get("from_file") and case["rows"]:
        cl.append("table-read-from-file")
    if case["rows"] and not case.get("from_file") and any(op["op"] == "replace" and op.get("seed", 1) % 3 == 0 for op in case["program"]):
        cl.append("replace-text-column-with-dna-encoded-column")
    if case.get("unread_results") and case["rows"] and len(case["program"]) >= 2:
        cl.append("results-reach-later-steps-unread")
    if case.get("tolist_first") and case["rows"]:
        cl.append("rows-taken-by-tolist-first")
    if case.get("variant") == 2 and case["rows"] and any(k in ("str", "seq", "seq1") for _, k in kinds_of(tname)):
        cl.append("text-column-given-as-64-bit-character-codes")
    if tname in DYNAMIC:
        cl.append("dynamic-class")
    if tname.startswith("dyn_nested"):
        cl.append("nested-table")
    if tname == "dyn_nested_union":
        cl.append("nested-table-in-a-table-or-text-column")
    if len(case["rows"]) == 0 or any(op["op"] == "mask" and not any(op["bits"]) for op in case["program"]):
        cl.append("empty-operand")
    if len(case["rows"]) == 1:
        cl.append("single-row-operand")
    if any(op["op"] == "concat" and op.get("variant", 0) in (1, 2) for op in case["program"]):
        cl.append("mixed-dtype-concat")
    if any(op["op"] == "concat" and op.get("variant", 0) == 3 for op in case["program"]) and case["rows"]:
        cl.append("concatenation-starting-from-an-empty-table")
    kinds = {k for _, k in kinds_of(tname)}
    reps = {"nd" if k in ("int", "uint", "pos", "float", "bool") else "other" for k in kinds}
    nontrivial = len(case["program"]) >= 2 and len(reps) == 2 and ("empty-operand" in cl or "single-row-operand" in cl)
    return nontrivial, cl


def check(case, stats=None):
    import numpy as np
    import bionumpy as bnp
    tname = case["type"]
    kinds = kinds_of(tname)
    dc = dataclass_of(tname)
    src = [tuple(r) for r in case["rows"]]
    try:
        t0 = build(tname, src, case.get("variant", 0))
        if case.get("from_file") and tname in FILE_TYPES and src:
            # the same table as it comes out of a file: written with the library's writer and read back lazily (the default reading mode)
            import tempfile
            bt = c03._load(c03.TYPES[tname][1])
            with tempfile.TemporaryDirectory(prefix="pbtc19", dir="/dev/shm" if os.path.isdir("/dev/shm") else None) as d_:
                path = os.path.join(d_, "t" + c03.TYPES[tname][2])
                with bnp.open(path, "w", buffer_type=bt) as fh:
                    fh.write(t0)
                t0 = bnp.open(path, buffer_type=bt).read()
    except Exception as e:
        return [Failure(f"C19:construct-raised:{tname}:{type(e).__name__}:{_where(e)}", {"error": repr(e)[:300]})]
    pool = [(t0, list(src))]
    out = []

    def verify(table, rows, op):
        if case.get("unread_results"):
            # what is read is a deep copy, so that the table kept for later steps reaches them as the operation left it
            # (reading a column that is a lazy view flattens it in place)
            try:
                table = copy.deepcopy(table)
            except Exception:
                pass
        if case.get("tolist_first") and len(rows):
            # the rows as tolist() hands them out, taken before anything else has looked at the table
            try:
                ents = [entry_tuple(e) for e in table.tolist()]
            except Exception as e:
                out.append(Failure(f"C19:tolist-raised:{op['op']}:{type(e).__name__}:{_where(e)}", {"error": repr(e)[:300], "op": op, "type": tname}))
                return False
            want = model_rows(tname, rows)
            if not formats.rows_equal(want, ents, ulps=0):
                out.append(Failure(f"C19:tolist-rows-differ:{op['op']}", dict(formats.first_row_diff(want, ents, 0) or {}, op=op, type=tname)))
                return False
        bad = columns_aligned(table)
        if bad:
            out.append(Failure(f"C19:columns-not-aligned:{op['op']}", {"column": bad, "op": op}))
            return False
        got = actual_rows(table)
        want = model_rows(tname, rows)
        if not formats.rows_equal(want, got, ulps=0):
            out.append(Failure(f"C19:rows-differ:{op['op']}", dict(formats.first_row_diff(want, got, 0) or {}, op=op, type=tname)))
            return False
        return True

    if not verify(t0, src, {"op": "construct"}):
        return out[:1]
    for op in case["program"]:
        name = op["op"]
        si = op.get("src", 0) % len(pool)
        T, R = pool[si]
        n = len(R)
        try:
            if name == "len":
                if len(T) != n:
                    out.append(Failure("C19:len", {"expected": n, "actual": len(T)}))
            elif name == "int":
                if n == 0:
                    continue
                i = op["i"] % (2 * n) - n
                try:
                    e = T[i]
                except TypeError as ex:
                    if "0-dimensional" in str(ex):
                        if stats is not None:
                            stats.tolerant["int-index-npstructures-TypeError"] += 1
                        continue
                    raise
                got = []
                for f in dataclasses.fields(e):
                    v = getattr(e, f.name)
                    got.append(v)
                want = model_rows(tname, [R[i]])[0]
                conv = []
                for v in got:
                    if hasattr(v, "to_string"):
                        conv.append(v.to_string())
                    elif dataclasses.is_dataclass(v):
                        conv.append(tuple(x.to_string() if hasattr(x, "to_string") else (x.item() if hasattr(x, "item") else x) for x in dataclasses.astuple(v)))
                    elif hasattr(v, "tolist"):
                        conv.append(v.tolist())
                    else:
                        conv.append(v)
                if not formats.value_equal(list(want), conv, 0):
                    out.append(Failure("C19:single-entry", {"expected": want, "actual": conv, "index": i}))
            elif name in ("slice", "mask", "ilist"):
                from pbt.props.c04 import _resolve_index, _apply_model_index
                pyidx, npidx = _resolve_index(op, n)
                new = T[npidx]
                rows = [R[k] for k in (range(n)[pyidx] if isinstance(pyidx, slice) else ([k for k, b in enumerate(pyidx) if b] if pyidx and isinstance(pyidx[0], bool) else pyidx))] if n else []
                pool.append((new, rows))
                verify(new, rows, op)
            elif name == "concat":
                s2 = op["src2"] % len(pool)
                T2, R2 = pool[s2]
                if op.get("variant") == 2:
                    # a second operand whose numbers do not fit a narrower dtype the first one may have
                    R2 = [tuple((v + 0.5 if k == "float" else (v + 2 ** 40 if k == "int" and abs(v) < 2 ** 20 else v)) for (nm, k), v in zip(kinds, r)) for r in R2]
                    T2 = build(tname, R2, 0)
                elif op.get("variant"):
                    T2 = build(tname, R2, op["variant"])      # same rows, other valid dtypes
                if op.get("variant") == 3 and n and not hasattr(T, "get_data_object"):
                    # appending to an empty table: an empty table built afresh (plain text) comes first, then the operand with one of its text
                    # columns handed over as a DNA-encoded column
                    tcols = [(j, nm) for j, (nm, k) in enumerate(kinds) if k in ("str", "id")]
                    if not tcols:
                        continue
                    j, nm = tcols[op["src2"] % len(tcols)]
                    vals = ["ACGT"[(op["src2"] + i) % 4] * (1 + i % 3) + "GA"[i % 2] for i in range(n)]
                    T_dna = bnp.replace(T, **{nm: bnp.as_encoded_array(list(vals), bnp.DNAEncoding)})
                    rows = [tuple(vals[i] if c == j else v for c, v in enumerate(r)) for i, r in enumerate(R)]
                    new = np.concatenate([build(tname, [], 0), T_dna])
                    pool.append((new, rows))
                    verify(new, rows, op)
                    continue
                new = np.concatenate([T, T2])
                pool.append((new, R + R2))
                verify(new, R + R2, op)
            elif name == "sort_by":
                cols = [(j, nm) for j, (nm, k) in enumerate(kinds) if k in ("int", "uint", "pos", "float", "strand")]
                if not cols or n == 0:
                    continue
                j, nm = cols[op["col"] % len(cols)]
                new = T.sort_by(nm)
                got = actual_rows(new)
                want_rows = model_rows(tname, R)
                key = (lambda r: "+-.".index(r[j])) if kinds[j][1] == "strand" else (lambda r: r[j])
                def num(v):
                    # a whole-valued float and the int of the same value are the same cell (a ragged numeric column that went through an
                    # empty table may come back as float64; the rows are compared by value)
                    if isinstance(v, (list, tuple)):
                        return [num(x) for x in v]
                    return int(v) if isinstance(v, float) and v.is_integer() else v

                def norm(r):
                    return repr(tuple(float(v) if kinds[c][1] == "float" else num(v) for c, v in enumerate(r)))
                if sorted(map(norm, got)) != sorted(map(norm, want_rows)):
                    out.append(Failure("C19:sort_by-not-a-permutation", {"column": nm, "expected": want_rows, "actual": got}))
                elif [key(r) for r in got] != sorted(key(r) for r in got):
                    out.append(Failure("C19:sort_by-not-ordered", {"column": nm, "actual": [key(r) for r in got]}))
                if columns_aligned(new):
                    out.append(Failure("C19:columns-not-aligned:sort_by", {"column": columns_aligned(new)}))
            elif name == "iterate":
                ents = list(T)
                if len(ents) != n:
                    out.append(Failure("C19:iteration-length", {"expected": n, "actual": len(ents)}))
            elif name == "replace":
                cols = [(j, nm, k) for j, (nm, k) in enumerate(kinds) if k in ("int", "uint", "pos", "float", "id", "str")]
                if not cols:
                    continue
                j, nm, k = cols[op["col"] % len(cols)]
                if k in ("int", "uint", "pos"):
                    vals = [(op["seed"] + 3 * i) % 1000 for i in range(n)]
                    arr = np.array(vals, dtype=int)
                elif k == "float":
                    vals = [((op["seed"] + i) % 64) / 8.0 for i in range(n)]
                    arr = np.array(vals, dtype=float)
                else:
                    vals = ["v%d" % ((op["seed"] + i) % 7) + "x" * (i % 3) for i in range(n)]
                    arr = list(vals) if n else []
                    if hasattr(T, "get_data_object") and n:
                        # a lazily read table takes replacement values as arrays in the column's own representation (C04/C05 assumption)
                        from bionumpy.string_array import as_string_array
                        arr = as_string_array(list(vals)) if k == "id" else bnp.as_encoded_array(list(vals))
                    elif n and op["seed"] % 3 == 0:
                        # the new text handed over as a column that is already encoded with a DNA alphabet (e.g. another table's sequence column)
                        vals = ["ACGT"[(op["seed"] + i) % 4] * (1 + i % 3) + "GA"[i % 2] for i in range(n)]
                        arr = bnp.as_encoded_array(list(vals), bnp.DNAEncoding)
                        op = dict(op, given_as="dna-encoded-column")
                if n == 0 and not isinstance(arr, np.ndarray):
                    continue
                new = bnp.replace(T, **{nm: arr})
                rows = [tuple(vals[i] if c == j else v for c, v in enumerate(r)) for i, r in enumerate(R)]
                pool.append((new, rows))
                verify(new, rows, op)
            elif name == "add_fields":
                if n == 0 or tname in DYNAMIC and False:
                    continue
                vals = [(op["seed"] + i) % 50 for i in range(n)]
                new = T.add_fields({"extra_field": vals})
                if len(new) != n or columns_aligned(new):
                    out.append(Failure("C19:add_fields-length", {"expected": n, "actual": len(new)}))
                elif np.asarray(new.extra_field).tolist() != vals:
                    out.append(Failure("C19:add_fields-values", {"expected": vals, "actual": np.asarray(new.extra_field).tolist()}))
                else:
                    base = [tuple(getattr_row) for getattr_row in formats.table_rows(new, names=[nm for nm, _ in kinds])]
                    if not formats.rows_equal(model_rows(tname, R), base, 0):
                        out.append(Failure("C19:add_fields-changed-other-columns", formats.first_row_diff(model_rows(tname, R), base, 0)))
            elif name == "tolist":
                ents = T.tolist()
                if len(ents) != n:
                    out.append(Failure("C19:tolist-length", {"expected": n, "actual": len(ents)}))
            elif name == "todict":
                d = T.todict()
                for nm, k in kinds:
                    if k == "nested":
                        continue
                    if nm not in d or len(d[nm]) != n:
                        out.append(Failure("C19:todict", {"field": nm, "keys": list(d.keys())}))
                        break
            elif name == "dict-roundtrip":
                if n == 0 or any(k == "nested" for _, k in kinds):
                    continue
                back = dc.from_dict(T.todict())
                verify(back, R, op)
            elif name == "pandas":
                if any(k in ("ilist", "qual", "nested", "numlist") for _, k in kinds) or n == 0:
                    continue
                df = T.topandas()
                back = dc.from_data_frame(df)
                verify(back, R, op)
            elif name == "from_entry_tuples":
                if n == 0 or any(k in ("nested", "qual") for _, k in kinds):
                    continue
                tuples = [tuple(r) for r in model_rows(tname, R)]
                back = dc.from_entry_tuples(tuples)
                verify(back, R, op)
            elif name == "bad-construction":
                how = op["how"]
                if how == "lengths" and len(kinds) >= 2 and n >= 1:
                    cols = [[r[j] for r in R] for j in range(len(kinds))]
                    if any(k in ("nested", "strand", "qual", "ilist") for _, k in kinds[:2]):
                        continue
                    cols[0] = cols[0] + cols[0][:1]
                    try:
                        bad = dc(*[list(c) if not isinstance(c[0], (int, float, bool)) else np.array(c) for c in cols])
                        if columns_aligned(bad) is not None or len({len(getattr(bad, f.name)) for f in dataclasses.fields(bad)}) > 1:
                            out.append(Failure("C19:unequal-columns-accepted", {"type": tname, "lengths": [len(getattr(bad, f.name)) for f in dataclasses.fields(bad)]}))
                    except Exception:
                        pass
                elif how == "wide" and any(k in ("str", "dna", "seq", "seq1") for _, k in kinds) and n >= 1:
                    # a character beyond one byte in a text or alphabet column: construction raises, or the table holds the text it was given
                    j = next(i for i, (_, k) in enumerate(kinds) if k in ("str", "dna", "seq", "seq1"))
                    rows = [list(r) for r in R]
                    rows[0][j] = chr(256 + ord("A")) + rows[0][j]
                    try:
                        good = build(tname, [tuple(r) for r in R])
                        cols = {f.name: getattr(good, f.name) for f in dataclasses.fields(good)}
                        cols[kinds[j][0]] = [r[j] for r in rows]
                        bad = dc(**cols)
                        stored = [r[j] for r in actual_rows(bad)]
                    except Exception:
                        stored = None
                    if stored is not None and stored != [r[j] for r in rows]:
                        out.append(Failure("C19:non-byte-character-stored-as-other-text", {"type": tname, "column": kinds[j][0], "given": [r[j] for r in rows][:3], "stored": stored[:3]}))
                elif how == "foreign" and any(k in ("strand", "dna") for _, k in kinds) and n >= 1:
                    j = next(i for i, (_, k) in enumerate(kinds) if k in ("strand", "dna"))
                    rows = [list(r) for r in R]
                    rows[0][j] = "Z" if kinds[j][1] == "strand" else rows[0][j] + "Z"
                    try:
                        good = build(tname, [tuple(r) for r in R])
                        cols = {f.name: getattr(good, f.name) for f in dataclasses.fields(good)}
                        cols[kinds[j][0]] = "".join(r[j] for r in rows) if kinds[j][1] == "strand" else [r[j] for r in rows]   # raw text: the table must validate it
                        bad = dc(**cols)
                        out.append(Failure("C19:foreign-character-accepted", {"type": tname, "column": kinds[j][0], "rows": actual_rows(bad)[:2]}))
                    except Exception:
                        pass
        except Exception as e:  # noqa
            if name == "sort_by" and isinstance(e, TypeError):
                if stats is not None:
                    stats.tolerant["sort_by-TypeError"] += 1
                continue
            if hasattr(T, "get_data_object"):
                out.append(Failure(f"C19:raised-on-table-read-from-file:{name}:{type(e).__name__}", {"error": repr(e)[:300], "op": op, "type": tname}))
            else:
                out.append(Failure(f"C19:raised:{name}:{tname}:{type(e).__name__}:{_where(e)}", {"error": repr(e)[:300], "op": op}))
        if out:
            break
        # operands are unchanged
        if not formats.rows_equal(model_rows(tname, R), actual_rows(T), 0):
            out.append(Failure(f"C19:operand-changed:{name}", {"op": op, "expected": model_rows(tname, R)[:3], "actual": actual_rows(T)[:3]}))
            break
    return out[:1]


# ---------------------------------------------------------------------------------------

def value_strategy(kind):
    from pbt import strategies as S
    if kind == "bool":
        return st.booleans()
    if kind == "dna":
        return st.text(alphabet="ACGT", min_size=0, max_size=8)
    if kind == "nested":
        return st.tuples(st.sampled_from(["chr1", "chr2", "c"]), st.integers(0, 100), st.integers(0, 1000)).map(list)
    if kind == "float":
        return st.one_of(st.floats(-1e6, 1e6, allow_nan=False), st.integers(-50, 50).map(float), st.sampled_from([0.5, 2.75, 1e-5, 1e16]))
    if kind == "int":
        return st.one_of(st.integers(-2 ** 62, 2 ** 62), st.integers(-1000, 1000), st.integers(0, 255))
    if kind == "uint16":
        return st.integers(0, 65535)
    if kind == "uint8":
        return st.integers(0, 255)
    if kind == "cigarop":
        return st.text(alphabet="MIDNSHP=X", min_size=1, max_size=4)
    if kind == "numlist":
        return st.lists(st.one_of(st.integers(1, 255), st.integers(256, 2 ** 28 - 1), st.sampled_from([255, 256, 300, 65536])), min_size=1, max_size=4)
    if kind == "bamseq":
        return st.text(alphabet="=ACMGRSVTWYHKDBN", min_size=0, max_size=8)
    return c03.value_strategy(kind)


def op_strategy():
    src = st.integers(0, 12)
    small = st.one_of(st.none(), st.integers(-6, 6))
    return st.one_of(
        st.builds(lambda s: {"op": "len", "src": s}, src),
        st.builds(lambda s, i: {"op": "int", "src": s, "i": i}, src, st.integers(0, 30)),
        st.builds(lambda s, a, b, c: {"op": "slice", "src": s, "start": a, "stop": b, "step": c}, src, small, small, st.one_of(st.none(), st.sampled_from([1, 2, -1, -2]))),
        st.builds(lambda s, b: {"op": "mask", "src": s, "bits": [int(x) for x in b]}, src, st.lists(st.booleans(), min_size=1, max_size=6)),
        st.builds(lambda s, i: {"op": "ilist", "src": s, "idx": i}, src, st.lists(st.integers(0, 30), max_size=6)),
        st.builds(lambda s, t, v: {"op": "concat", "src": s, "src2": t, "variant": v}, src, src, st.sampled_from([0, 0, 1, 2, 3])),
        st.builds(lambda s, c: {"op": "sort_by", "src": s, "col": c}, src, st.integers(0, 8)),
        st.builds(lambda s: {"op": "iterate", "src": s}, src),
        st.builds(lambda s, c, sd: {"op": "replace", "src": s, "col": c, "seed": sd}, src, st.integers(0, 8), st.integers(0, 999)),
        st.builds(lambda s, sd: {"op": "add_fields", "src": s, "seed": sd}, src, st.integers(0, 999)),
        st.builds(lambda s: {"op": "tolist", "src": s}, src),
        st.builds(lambda s: {"op": "todict", "src": s}, src),
        st.builds(lambda s: {"op": "dict-roundtrip", "src": s}, src),
        st.builds(lambda s: {"op": "pandas", "src": s}, src),
        st.builds(lambda s: {"op": "from_entry_tuples", "src": s}, src),
        st.builds(lambda s, h: {"op": "bad-construction", "src": s, "how": h}, src, st.sampled_from(["lengths", "foreign", "wide"])),
    )


@st.composite
def c19_case(draw, tname, max_rows, max_steps):
    kinds = kinds_of(tname)
    n = draw(st.one_of(st.integers(0, max_rows), st.sampled_from([0, 1, 2])))
    rows = []
    for _ in range(n):
        row = [draw(value_strategy(k)) for _, k in kinds]
        if tname == "fastq":
            row[2] = draw(st.text(alphabet="!5I~#", min_size=len(row[1]), max_size=len(row[1])))
        if tname == "bam":
            row[8] = draw(st.text(alphabet="!5I~#", min_size=len(row[7]), max_size=len(row[7])))
        rows.append(row)
    return {"type": tname, "rows": rows, "variant": draw(st.sampled_from([0, 1, 2])), "program": draw(st.lists(op_strategy(), min_size=1, max_size=max_steps)),
            "from_file": tname in FILE_TYPES and draw(st.integers(0, 2)) == 0, "tolist_first": draw(st.integers(0, 2)) == 0, "unread_results": draw(st.booleans())}


def task_type(stats, known_open, tname, n, seed, max_rows, max_steps):
    import sys
    core.run_hypothesis(sys.modules[__name__], c19_case(tname, max_rows, max_steps), stats, known_open, max_examples=n, seed=seed)


def tasks(tier, seed):
    n, mr, ms, reps = (300, 6, 12, 1) if tier == "quick" else (1000, 20, 30, 4)
    out = []
    for i, t in enumerate(STATIC + list(DYNAMIC)):
        for j in range(reps):
            out.append(("task_type", dict(tname=t, n=n, seed=seed * 1000 + i * 10 + j, max_rows=mr, max_steps=ms)))
    return out
