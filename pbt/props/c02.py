"""C02  Parsed columns mean what the file format says the text means."""
import io
import os
import tempfile

from hypothesis import strategies as st

from pbt import core, formats, strategies as S
from pbt.core import Failure

ID = "C02"
RULE = ("Files from independent per-format grammars (two-line and wrapped FASTA at any width, FASTQ, BED3/6/12, bedGraph, wig-style bedGraph "
        "with interior comments, narrowPeak, chrom.sizes, VCF without/with typed INFO header and with genotype columns for the four genotype "
        "buffer types, SAM with optional tags, GTF, GFF3 with interior comments, GFA S-lines, pairs): 1..N records, field widths 1..W with "
        "single-character and very unequal widths, signed / zero-padded integers, decimal and scientific floats, '.' placeholders, header and "
        "comment lines, LF/CRLF, with and without final newline. Read eagerly and lazily through NumpyFileReader over BytesIO, and a seeded "
        "sample through bnp.open on a real file (where bnp.count_entries must also give the number of records and bionumpy.io.files.read the same table). In a share of the cases another well-formed file is read first in the same process (the same bytes "
        "through another VCF buffer type; another file of the same format; for typed VCF a file declaring the same INFO keys and types with a "
        "different Number), and both reads are checked. Oracle: number of entries == number of records and every column equals the value computed "
        "from the text with plain Python (int, float within 8 ulp, verbatim strings, lists element by element, POS-1, typed INFO per header, "
        "genotypes at decoded level). Non-trivial: >= 2 records and some column with unequal field widths.")
ASSUMPTIONS = [
    "The grammar only emits files the format definitions call well formed; a BED score column mixing '.' and numbers is a separate tolerant class (placeholder or exception).",
    "Floats are compared within 8 ulp of Python's float(text) (C18 measures the actual bound).",
    "Phased genotype encodings are only given their documented domain (0|0,0|1,1|0,1|1; haplotype alleles 0-4 and '.').",
]
REQUIRED_CLASSES = ["crlf", "single-char-field", "wide-vs-narrow", "signed-int", "dot-placeholder", "typed-info",
                    "info-key-absent", "sam-tags", "trailing-comma-list", "interior-comments", "lazy", "eager",
                    "other-buffer-type-read-first", "other-file-read-first", "same-info-keys-other-number-read-first",
                    "row-range-written-before-any-column-was-parsed"]
BOUNDS = {"quick": "300 files per format variant (21 variants), up to 10 records, widths up to 14",
          "thorough": "3000 files per format variant, up to 40 records, widths up to 40"}
BUDGET_S = {"quick": 200, "thorough": 1500}

PLAIN = ["fasta2", "fastaml", "fastq", "bed3", "bed6", "bed12", "bdg", "wig", "narrowpeak", "chromsizes",
         "sam", "gtf", "gff", "gfa", "pairs"]
VCFS = ["vcf", "vcfs", "vcf2", "vcfm", "vcfpm", "vcfph"]


def reset_state():
    from bionumpy.io.vcf_buffers import VCFBuffer
    VCFBuffer.info_cache.clear()
    VCFBuffer.vcfentry_cache.clear()


def read_rows(data, fmt, lazy, write_slice_first=None):
    from bionumpy.io.parser import NumpyFileReader, NpBufferedWriter
    from bionumpy.io.npdataclassreader import NpDataclassReader
    t = NpDataclassReader(NumpyFileReader(io.BytesIO(data), fmt.buffer), lazy=lazy).read()
    if write_slice_first and lazy and len(t) >= 2:
        # a row range of the table is written out before any column of the table has been parsed; the columns still mean what the file says
        a = write_slice_first[0] % len(t)
        b = a + 1 + write_slice_first[1] % (len(t) - a)
        NpBufferedWriter(io.BytesIO(), fmt.buffer).write(t[a:b])
    return formats.table_rows(t)


def read_rows_path(data, fmt, lazy):
    import bionumpy as bnp
    with tempfile.TemporaryDirectory(prefix="pbtc02") as d:
        path = os.path.join(d, "x" + fmt.suffix)
        with open(path, "wb") as f:
            f.write(data)
        fh = bnp.open(path, buffer_type=fmt.buffer, lazy=lazy)
        try:
            rows = formats.table_rows(fh.read())
        finally:
            fh.close()
        # the library's own count of the entries of the file, and the one-call reader
        n = bnp.count_entries(path, buffer_type=fmt.buffer)
        if n != len(rows):
            raise CountMismatch(f"count_entries says {n}, read() returned {len(rows)} entries")
        from bionumpy.io.files import read as read_file
        again = formats.table_rows(read_file(path, buffer_type=fmt.buffer))
        if formats.first_row_diff(rows, again, 0) is not None:
            raise CountMismatch(f"bionumpy.io.files.read differs from open().read(): {formats.first_row_diff(rows, again, 0)}")
        return rows


class CountMismatch(Exception):
    pass


def _widths(case):
    cols = list(zip(*[r[:8] if case["fmt"] in formats.VCF_FAMILY else r for r in case["records"]])) if case["records"] else []
    return [[len(x) for x in c] for c in cols]


def classify(case):
    cl = [case["fmt"]]
    recs = case["records"]
    ws = _widths(case)
    uneven = any(len(set(c)) > 1 for c in ws)
    if case.get("crlf"):
        cl.append("crlf")
    if not case.get("final_nl", True):
        cl.append("no-final-newline")
    if any(1 in c for c in ws):
        cl.append("single-char-field")
    if any(max(c) >= 8 * max(1, min(c)) for c in ws if c):
        cl.append("wide-vs-narrow")
    flat = [x for r in recs for x in r]
    if any(x[:1] in "+-" and x[1:].isdigit() for x in flat):
        cl.append("signed-int")
    if any(x == "." for x in flat):
        cl.append("dot-placeholder")
    if case.get("info_decl"):
        cl.append("typed-info")
        keys = [d[0] for d in case["info_decl"]]
        if any(not all((k + "=") in r[7] or k in r[7].split(";") for k in keys) for r in recs):
            cl.append("info-key-absent")
    if case["fmt"] == "sam" and any(len(r) > 11 and r[11] for r in recs):
        cl.append("sam-tags")
    if case["fmt"] == "bed12" and any(r[10].endswith(",") for r in recs):
        cl.append("trailing-comma-list")
    if case.get("comments"):
        cl.append("interior-comments")
    if case.get("header"):
        cl.append("header-lines")
    cl.append("lazy" if case.get("lazy") else "eager")
    if case.get("via_path"):
        cl.append("via-path")
    if case.get("write_slice_first") and case.get("lazy") and len(recs) >= 2:
        cl.append("row-range-written-before-any-column-was-parsed")
    if case.get("prior_fmt"):
        cl.append("other-buffer-type-read-first")
    if case.get("prior"):
        cl.append("other-file-read-first")
        if case.get("info_decl") and case["prior"].get("info_decl") and case["prior"]["info_decl"] != case["info_decl"] \
                and [(d[0], d[2]) for d in case["prior"]["info_decl"]] == [(d[0], d[2]) for d in case["info_decl"]]:
            cl.append("same-info-keys-other-number-read-first")
    return len(recs) >= 2 and uneven, cl


def _bucket_for(case, diff):
    fmt = case["fmt"]
    if "row" in diff:
        exp, act = diff["expected"], diff["actual"]
        cols = [i for i, (e, a) in enumerate(zip(exp, act)) if not formats.value_equal(e, a)]
        names = [n for n, _ in formats.FORMATS[fmt].columns]
        col = names[cols[0]] if cols and cols[0] < len(names) else "?"
        return f"C02:value:{fmt}:{col}"
    return f"C02:count:{fmt}"


def check(case, stats=None):
    reset_state()
    fmt = formats.FORMATS[case["fmt"]]
    data = formats.serialize(case)
    expected = formats.expected_rows(case)
    lazy = bool(case.get("lazy"))
    try:
        if case.get("prior_fmt"):
            read_rows(data, formats.FORMATS[case["prior_fmt"]], lazy)
        if case.get("prior"):
            # another well-formed file read first in the same process: what it leaves behind must not change this read
            prior = case["prior"]
            got = read_rows(formats.serialize(prior), formats.FORMATS[prior["fmt"]], lazy)
            pdiff = formats.first_row_diff(formats.expected_rows(prior), got)
            if pdiff is not None:
                return [Failure(_bucket_for(prior, pdiff), dict(pdiff, in_prior_file=True))]
        rows = read_rows_path(data, fmt, lazy) if case.get("via_path") else read_rows(data, fmt, lazy, case.get("write_slice_first"))
    except CountMismatch as e:
        return [Failure(f"C02:count_entries-or-read-disagrees:{case['fmt']}", {"error": str(e)[:400]})]
    except Exception as e:
        import traceback
        tb = traceback.extract_tb(e.__traceback__)
        where = next((f"{os.path.basename(fr.filename)}:{fr.name}" for fr in reversed(tb) if "/bionumpy/" in fr.filename), "?")
        return [Failure(f"C02:raised:{case['fmt']}:{type(e).__name__}:{where}", {"error": repr(e)[:300]})]
    diff = formats.first_row_diff(expected, rows)
    if diff is not None:
        return [Failure(_bucket_for(case, diff), diff)]
    return []


# ---------------------------------------------------------------------------------------

@st.composite
def plain_case(draw, fmt, max_records, W):
    case = draw(S.file_case(fmt, 1, max_records, W, canonical=False))
    if fmt in ("wig", "gff"):
        n = len(case["records"])
        comments = {}
        for i in draw(st.lists(st.integers(1, max(1, n - 1)), max_size=3, unique=True)):
            if i < n:
                comments[str(i)] = ["#interior comment", "# x y", "#x\ty\t"][:draw(st.integers(1, 3))]        # (a comment may hold the column separator)
        if comments:
            case["comments"] = comments
        if fmt in ("wig", "gff"):
            case["header"] = [h.replace("\t", " ") for h in case["header"]]
    case["lazy"] = draw(st.booleans()) if formats.FORMATS[fmt].lazy else False
    if draw(st.integers(0, 7)) == 0:
        case["via_path"] = True
    if draw(st.integers(0, 7)) == 0:
        case["prior"] = draw(S.file_case(fmt, 1, 3, W, canonical=False))
    if case["lazy"] and not case.get("via_path") and draw(st.integers(0, 3)) == 0:
        case["write_slice_first"] = [draw(st.integers(1, 9)), draw(st.integers(0, 9))]
    return case


@st.composite
def vcf_family_case(draw, fmt, max_records):
    # VCFWithInfoAsStringBuffer is only generated without ##INFO lines: with them the code parses typed INFO and the
    # property does not say which of the two the string variant should do
    case = draw(S.vcf_case(fmt, max_records, typed=None if fmt != "vcfs" else False))
    case["lazy"] = draw(st.booleans())
    if draw(st.integers(0, 5)) == 0:
        case["prior_fmt"] = draw(st.sampled_from([f for f in VCFS if f != fmt and f != "vcfs"]))
        if case["prior_fmt"] in ("vcfm", "vcfpm", "vcfph") and fmt in ("vcf", "vcfs"):
            case["prior_fmt"] = "vcf2" if fmt != "vcf2" else "vcf"
    elif draw(st.integers(0, 3)) == 0:
        if case.get("info_decl"):
            # a file whose header declares the same INFO keys and types, some with another Number, read first
            case["prior"] = draw(S.vcf_case(fmt, 3, decl=S.related_info_decl(draw, case["info_decl"])))
        else:
            case["prior"] = draw(S.vcf_case(fmt, 3, typed=None if fmt != "vcfs" else False))
    return case


def task_fmt(stats, known_open, fmt, n, seed, max_records, W):
    import sys
    mod = sys.modules[__name__]
    strat = vcf_family_case(fmt, max_records) if fmt in VCFS else plain_case(fmt, max_records, W)
    core.run_hypothesis(mod, strat, stats, known_open, max_examples=n, seed=seed)


def tasks(tier, seed):
    out = []
    n, mr, W = (300, 10, 14) if tier == "quick" else (1500, 40, 40)
    reps = 1 if tier == "quick" else 2
    for i, fmt in enumerate(PLAIN + VCFS):
        for j in range(reps):
            out.append(("task_fmt", dict(fmt=fmt, n=n, seed=seed * 1000 + i * 10 + j, max_records=mr, W=W)))
    return out
