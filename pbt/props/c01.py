"""C01  Chunked reading loses, duplicates or reorders no entry, for any chunk size."""
import gzip
import io
import itertools
import os
import tempfile

from hypothesis import strategies as st

from pbt import core, formats, strategies as S
from pbt.core import Failure

ID = "C01"
RULE = ("Files from per-format grammars (two-line and wrapped FASTA, FASTQ, BED3, BED6, bedGraph, narrowPeak, VCF, SAM, GTF; in the sampled part also BED12, GFF3, GFA, pairs, wiggle-as-bedGraph and chrom.sizes) "
        "crossed with chunk size k, {plain, gzip}, {final newline, none}, {LF, CRLF}, {lazy, eager}. "
        "Exhaustive core: every sequence of 1..n records whose variable fields all have a width from a small set, every k from 1 to size+2 "
        "and every combination of the four flags. Sampled remainder: Hypothesis files of up to 60 records with k biased to divisors of "
        "the file size, record sizes +-1 and record boundaries, a quarter of them with a max_chunk_size. Oracle: rows of all delivered chunks concatenated == rows of read() of the "
        "same bytes; no empty chunk delivered; raising is allowed only when k is smaller than the longest record; for a third of the chunk sizes "
        "that give 3 to 5 chunks, np.concatenate of the (untouched) chunk tables must also have the rows of read(); in a third of the sampled cases one to three chunks "
        "are taken with read_chunk and the remainder with read(), which together must be the whole file as well. "
        "Non-trivial: k < file size (at least two raw reads). Distinct: by the whole case.")
ASSUMPTIONS = [
    "Generated files are well formed by the format definitions; spellings are canonical so read() itself is not in question here (C02 checks it).",
    "gzip input is read through gzip.GzipFile over BytesIO with prepend mode, as bnp.open does; a seeded sample goes through real files and bnp.open.",
    "An exception is tolerated only if k is smaller than the byte length of the longest record including its line ends, or if a max_chunk_size was given that is smaller than file size + k + 2 (the documented 'no complete entry found' limit).",
]
REQUIRED_CLASSES = ["k-divides-size", "no-final-newline", "gzip", "crlf", "lazy", "eager", "k-lt-size", "via-path", "max-chunk-size-given",
                    "max-chunk-size-never-reached", "chunks-then-read-gzip", "comment-lines-between-records"]
BOUNDS = {
    "quick": "core: widths {1,2}, up to 3 records, all 10 formats, all k in 1..size+2, all 16 flag combinations (every 4th case from each of 4 offsets = complete), plus a 1-in-8 stride sample of the same core with widths {1,5}; 100 sampled files for each of 17 formats",
    "thorough": "core: widths {1,2,5}, up to 4 records, all 10 formats, all k, all 16 flag combinations; 500 sampled files for each of 17 formats",
}
BUDGET_S = {"quick": 300, "thorough": 1500}

FMTS = ["fasta2", "fastaml", "fastq", "bed3", "bed6", "bdg", "narrowpeak", "vcf", "sam", "gtf"]
# formats that take part in the sampled remainder only
SAMPLED_ONLY = ["bed12", "gff", "gfa", "pairs", "wig", "chromsizes", "vcf-typed"]


# ---------------------------------------------------------------------------------------
# reading
# ---------------------------------------------------------------------------------------

def _reader(data, case, fmt):
    from bionumpy.io.parser import NumpyFileReader
    from bionumpy.io.npdataclassreader import NpDataclassReader
    if case.get("gzip"):
        fobj = gzip.GzipFile(fileobj=io.BytesIO(gzip.compress(data, mtime=0)))
        r = NumpyFileReader(fobj, fmt.buffer)
        r.set_prepend_mode()
    else:
        r = NumpyFileReader(io.BytesIO(data), fmt.buffer)
    return NpDataclassReader(r, lazy=bool(case.get("lazy")))


def read_whole(data, case, fmt):
    return formats.table_rows(_reader(data, case, fmt).read())


def read_chunked(data, case, fmt):
    rows, sizes = [], []
    for chunk in _reader(data, case, fmt).read_chunks(min_chunk_size=case["k"], **_max_kw(case)):
        r = formats.table_rows(chunk)
        sizes.append(len(r))
        rows.extend(r)
    return rows, sizes


def _max_kw(case):
    return {"max_chunk_size": case["max_k"]} if case.get("max_k") is not None else {}


def raise_allowed(case):
    """A chunk size smaller than the longest record may raise; so may a max_chunk_size that the bytes gathered for one chunk can exceed
    (anything below file size + chunk size + the appended terminator bytes is treated as such)."""
    if case["k"] < longest_record(case):
        return True
    return case.get("max_k") is not None and case["max_k"] < len(formats.serialize(case)) + case["k"] + 2


def read_via_path(data, case, fmt):
    import bionumpy as bnp
    with tempfile.TemporaryDirectory(prefix="pbtc01") as d:
        path = os.path.join(d, "x" + fmt.suffix + (".gz" if case.get("gzip") else ""))
        with open(path, "wb") as f:
            f.write(gzip.compress(data, mtime=0) if case.get("gzip") else data)
        bt = fmt.buffer
        whole = formats.table_rows(bnp.open(path, buffer_type=bt, lazy=bool(case.get("lazy"))).read())
        rows, sizes = [], []
        fh = bnp.open(path, buffer_type=bt, lazy=bool(case.get("lazy")))
        for chunk in fh.read_chunks(min_chunk_size=case["k"], **_max_kw(case)):
            r = formats.table_rows(chunk)
            sizes.append(len(r))
            rows.extend(r)
        fh.close()
    return whole, rows, sizes


def longest_record(case):
    return max(len(formats.record_bytes(case, r)) for r in case["records"])


def classify(case):
    data = formats.serialize(case)
    size, k = len(data), case["k"]
    cl = [case["fmt"]]
    if k < size:
        cl.append("k-lt-size")
    if size % k == 0:
        cl.append("k-divides-size")
    last = len(formats.record_bytes(case, case["records"][-1])) - (0 if case.get("final_nl", True) else len(formats.eol(case)))
    if last % k == 0:
        cl.append("k-divides-last-record")
    if case.get("comments"):
        cl.append("comment-lines-between-records")
    if not case.get("final_nl", True):
        cl.append("no-final-newline")
    cl.append("gzip" if case.get("gzip") else "plain")
    if case.get("crlf"):
        cl.append("crlf")
    cl.append("lazy" if case.get("lazy") else "eager")
    if case.get("via_path"):
        cl.append("via-path")
    if case.get("then_read") and not case.get("via_path"):
        cl.append("chunks-then-read" + ("-gzip" if case.get("gzip") else ""))
    if case.get("max_k") is not None:
        cl.append("max-chunk-size-given")
        if case["max_k"] >= size + k + 2:
            cl.append("max-chunk-size-never-reached")
    if k < longest_record(case):
        cl.append("k-lt-longest-record")
    return k < size, cl


def check(case, stats=None):
    fmt = formats.FORMATS[case["fmt"]]
    data = formats.serialize(case)
    expected = formats.expected_rows(case)
    tag = f"{case['fmt']}"
    try:
        if case.get("via_path"):
            whole, rows, sizes = read_via_path(data, case, fmt)
        else:
            whole = read_whole(data, case, fmt)
            rows = None
    except Exception as e:  # whole read must work on a well-formed file
        if case.get("via_path"):
            # cannot tell which part raised; redo the whole read alone
            try:
                whole = read_whole(data, case, fmt)
            except Exception as e2:
                return [Failure(f"C01:whole-read-raised:{type(e2).__name__}", {"error": repr(e2)[:300]})]
            if raise_allowed(case):
                if stats is not None:
                    stats.raised_allowed[type(e).__name__] += 1
                return []
            return [Failure(f"C01:raised-at-sufficient-k:{tag}:{type(e).__name__}", {"error": repr(e)[:300]})]
        return [Failure(f"C01:whole-read-raised:{type(e).__name__}", {"error": repr(e)[:300]})]
    if stats is not None and not formats.rows_equal(expected, whole):
        stats.extra["whole_read_disagrees_with_grammar"] = stats.extra.get("whole_read_disagrees_with_grammar", 0) + 1
    if rows is None:
        try:
            rows, sizes = read_chunked(data, case, fmt)
        except Exception as e:
            if raise_allowed(case):
                if stats is not None:
                    stats.raised_allowed[type(e).__name__] += 1
                return []
            return [Failure(f"C01:raised-at-sufficient-k:{tag}:{type(e).__name__}", {"error": repr(e)[:300], "k": case["k"]})]
    out = []
    if not formats.rows_equal(whole, rows, ulps=0):
        n_w, n_c = len(whole), len(rows)
        if n_c < n_w and formats.rows_equal(whole[:n_c], rows, ulps=0):
            kind = "tail-dropped"
        elif n_c < n_w:
            kind = "entries-lost"
        elif n_c > n_w:
            kind = "entries-added"
        else:
            kind = "entries-differ"
        out.append(Failure(f"C01:{kind}:{tag}", {"k": case["k"], "n_whole": n_w, "n_chunked": n_c,
                                                   "diff": formats.first_row_diff(whole, rows, 0), "chunk_sizes": sizes}))
    if any(s == 0 for s in sizes):
        out.append(Failure(f"C01:empty-chunk:{tag}", {"chunk_sizes": sizes}))
    if not out and case.get("then_read") and not case.get("via_path") and not raise_allowed(case):
        # a few chunks taken one at a time, then the remainder with read(): together they are the whole file too
        try:
            rd = _reader(data, case, fmt)
            mixed = []
            for _ in range(case["then_read"]):
                c = rd.read_chunk(min_chunk_size=case["k"])
                if c is None or len(c) == 0:
                    break
                mixed.extend(formats.table_rows(c))
            rest = rd.read()
            if rest is not None:
                mixed.extend(formats.table_rows(rest))
        except Exception as e:
            return [Failure(f"C01:chunks-then-read-raised:{tag}:{type(e).__name__}", {"error": repr(e)[:300], "k": case["k"], "chunks_first": case["then_read"], "gzip": bool(case.get("gzip"))})]
        if not formats.rows_equal(whole, mixed, ulps=0):
            out.append(Failure(f"C01:chunks-then-read-differs:{tag}", {"k": case["k"], "chunks_first": case["then_read"], "n_whole": len(whole), "n_got": len(mixed),
                                                                       "diff": formats.first_row_diff(whole, mixed, 0)}))
    if not out and 3 <= len(sizes) <= 5 and case["k"] % 3 == 0 and not case.get("via_path"):
        # the chunks joined by the library itself (np.concatenate of the chunk tables, untouched before) must be the whole read too
        try:
            import numpy as np
            joined = formats.table_rows(np.concatenate(list(_reader(data, case, fmt).read_chunks(min_chunk_size=case["k"]))))
        except Exception as e:
            return [Failure(f"C01:np-concatenate-of-chunks-raised:{tag}:{type(e).__name__}", {"error": repr(e)[:300], "k": case["k"], "chunk_sizes": sizes})]
        if not formats.rows_equal(whole, joined, ulps=0):
            out.append(Failure(f"C01:np-concatenate-of-chunks-differs:{tag}", {"k": case["k"], "chunk_sizes": sizes, "diff": formats.first_row_diff(whole, joined, 0)}))
    return out


# ---------------------------------------------------------------------------------------
# work units
# ---------------------------------------------------------------------------------------

def core_cases(fmt, widths, max_records, stride=1, offset=0):
    n = 0
    for nrec in range(1, max_records + 1):
        for ws in itertools.product(widths, repeat=nrec):
            recs = [S.small_record(fmt, w, i) for i, w in enumerate(ws)]
            base = {"fmt": fmt, "records": recs, "header": S.default_header(fmt)}
            if fmt == "fastaml":
                wraps = [1, 2, 80]
            else:
                wraps = [None]
            for wrap in wraps:
                for crlf, final_nl in itertools.product((False, True), repeat=2):
                    c0 = dict(base, crlf=crlf, final_nl=final_nl)
                    if wrap:
                        c0["wrap"] = wrap
                    size = len(formats.serialize(c0))
                    for k in range(1, size + 3):
                        for gz, lazy in itertools.product((False, True), repeat=2):
                            n += 1
                            if (n + offset) % stride:
                                continue
                            c = dict(c0, k=k, gzip=gz, lazy=lazy)
                            if n % 3 == 0:
                                c["then_read"] = 1 + (n // 3) % 2       # one or two chunks, then read() for the rest
                            yield c


def task_core(stats, known_open, fmt, widths, max_records, stride=1, offset=0):
    import sys
    mod = sys.modules[__name__]
    core.run_enumeration(mod, core_cases(fmt, widths, max_records, stride, offset), stats, known_open,
                         name=f"core:{fmt}:widths={widths}:n<={max_records}" + (f":stride={stride}" if stride > 1 else ""))


@st.composite
def sampled_case(draw, fmt, max_records, W):
    if fmt == "vcf-typed":
        # a VCF whose header declares typed INFO keys (of different lengths): the INFO column is looked up key by key in every chunk
        case = draw(S.vcf_case("vcf", max_records, typed=True))
        if len(case["records"]) < 2:
            case["records"] = case["records"] * 2
    else:
        case = draw(S.file_case(fmt, min_records=2, max_records=max_records, W=W, canonical=True))
    if fmt in ("wig", "gff") and draw(st.booleans()):
        # comment lines between the records (one to three in a row, so that a chunk can end up holding comment lines only)
        n_ = len(case["records"])
        L_ = max(len(formats.record_bytes(case, r)) for r in case["records"])
        # (the second comment line is longer than any record when 'long' is drawn: a chunk size that holds every record can still end inside it)
        long_ = "." * (draw(st.sampled_from([0, 1, 2])) * L_)
        comments = {str(i): ["#c", "# interior comment" + long_, "#x\ty"][:draw(st.integers(1, 3))] for i in draw(st.lists(st.integers(1, n_ - 1), min_size=1, max_size=3, unique=True))}
        if comments:
            case["comments"] = comments
            case["header"] = [h.replace("\t", " ") for h in case["header"]]
    data = formats.serialize(case)
    size = len(data)
    rec_sizes = [len(formats.record_bytes(case, r)) for r in case["records"]]
    hdr = len(formats.header_bytes(case))
    bounds = list(itertools.accumulate(rec_sizes))
    interesting = set()
    for d in range(1, 9):
        if size % d == 0:
            interesting.add(size // d)
    tail = rec_sizes[-1] - (0 if case["final_nl"] else len(formats.eol(case)))
    for d in range(1, 5):
        if tail % d == 0 and tail // d > 0:
            interesting.add(tail // d)
    for s in rec_sizes[:6] + rec_sizes[-3:]:
        interesting.update([s - 1, s, s + 1])
    for b in bounds[:6] + bounds[-3:]:
        interesting.update([b - 1, b, b + 1, b + hdr])
    interesting.update([size - 1, size, size + 1, size + 2])
    if case.get("comments"):
        interesting.update([max(rec_sizes), max(rec_sizes) + 1, max(rec_sizes) + 20])
    interesting = sorted(x for x in interesting if 1 <= x <= size + 2)
    # (very small chunk sizes on files of tens of kilobytes cost quadratic time without showing anything new)
    k = max(draw(st.one_of(st.sampled_from(interesting), st.integers(1, size + 2))), size // 200)
    if case.get("comments") and draw(st.booleans()):
        k = max(rec_sizes) + draw(st.sampled_from([0, 1, 20, max(rec_sizes) // 2]))        # holds every record, not every run of comment lines
    case.update(k=k, gzip=draw(st.booleans()), lazy=draw(st.booleans()))
    if draw(st.integers(0, 9)) == 0:
        case["via_path"] = True
    if draw(st.integers(0, 2)) == 0:
        case["then_read"] = draw(st.integers(1, 3))
    if draw(st.integers(0, 3)) == 0:
        # an upper limit on the bytes gathered for one chunk: far above what can be gathered, just above the longest record, or anything
        case["max_k"] = draw(st.one_of(st.just(size + k + 2), st.integers(size + k + 2, 2 * size + 2 * k + 4), st.integers(1, size + k + 2),
                                       st.just(max(rec_sizes) + k)))
    return case


def task_sampled(stats, known_open, fmt, n, seed, max_records, W):
    import sys
    mod = sys.modules[__name__]
    core.run_hypothesis(mod, sampled_case(fmt, max_records, W), stats, known_open, max_examples=n, seed=seed)


def tasks(tier, seed):
    out = []
    if tier == "quick":
        # (the sampled files first: they are the cheaper and the more varied part, and must not be the part a time budget cuts off)
        for i, fmt in enumerate(FMTS + SAMPLED_ONLY):
            out.append(("task_sampled", dict(fmt=fmt, n=100, seed=seed * 1000 + i, max_records=20, W=20)))
        for j in range(3):
            # (typed VCF again, with small files: which INFO item ends a chunk matters there)
            out.append(("task_sampled", dict(fmt="vcf-typed", n=120, seed=seed * 1000 + 500 + j, max_records=6, W=6)))
        for fmt in FMTS:
            for off in range(4):
                out.append(("task_core", dict(fmt=fmt, widths=[1, 2], max_records=3, stride=4, offset=off)))
            # very unequal field widths in one column (a one-character field at the start of a chunk, a five-character one later in it)
            for off in range(2):
                out.append(("task_core", dict(fmt=fmt, widths=[1, 5], max_records=3, stride=16, offset=off * 8 + 1)))
    else:
        for fmt in FMTS:
            for off in range(16):
                out.append(("task_core", dict(fmt=fmt, widths=[1, 2, 5], max_records=4, stride=16, offset=off)))
        for i, fmt in enumerate(FMTS + SAMPLED_ONLY):
            for j in range(2):
                out.append(("task_sampled", dict(fmt=fmt, n=250, seed=seed * 1000 + i * 10 + j, max_records=60, W=40)))
    return out
