"""C07  Encoded arrays behave like NumPy arrays of characters."""
import copy
import os
import traceback

from hypothesis import strategies as st

from pbt import core
from pbt.core import Failure

ID = "C07"
RULE = ("A program of NumPy-style operations over a pool of values, run on the real objects (EncodedRaggedArray / EncodedArray / boolean results) "
        "and on a Python model (list[str] / str / nested bool lists), for BaseEncoding, ACGT, ACGTn and amino-acid encodings. The initial value is "
        "as_encoded_array(list of 0..N strings of length 0..M), including all-empty rows and a single row. Operations reuse earlier results, which "
        "may be non-contiguous views: row int index (negative too), row slice with step, row reversal, boolean mask, integer list, column slice, "
        "column reversal, [rows, column] where every selected row is long enough, == / != with a character, with a string of the row's length "
        "and with an equally shaped array, item assignment on a copy in the three forms the code base uses ([rows, int] = char, [int] = string of "
        "equal length, [row slice, col slice] = ragged of equal shape), np.concatenate, copy, ravel, construction from (and comparison with) a list of the encoded rows, to_string / tolist, and strops split / join / "
        "str_equal. A quarter of the programs run on a two-dimensional EncodedArray (rows of equal length): row and column selection by slice, mask and "
        "integer list, single cells, ravel, copy, comparison with a character, concatenation. Oracle: after every step the result decodes to the model value, the result has the operand's encoding, and assignment to a "
        "copy leaves the original equal to its model. Non-trivial: >= 2 steps where a view-producing step precedes another step, on a list "
        "containing an empty row or rows of unequal length.")
ASSUMPTIONS = [
    "Item assignment is only applied to a fresh copy, so aliasing between NumPy views (which the list model does not have) is never observed; the original is re-checked after the assignment.",
    "The form [int, int] = char is not generated: it raises ValueError inside npstructures and no caller uses it.",
    "Indices are generated in range; column selections only when every selected row is long enough.",
]
REQUIRED_CLASSES = ["view-then-op", "empty-row", "unequal-rows", "single-row", "setitem", "concat", "compare-array", "split-join", "negative-index",
                    "empty-selection", "two-dimensional", "fancy-columns-then-ravel", "built-from-encoded-rows",
                    "str-equal-of-two-ragged-arrays", "numpy-array-function-on-flat-array",
                    "split-on-a-list-of-letters", "join-of-encoded-rows", "results-reach-later-steps-unread", "alphabet-made-for-the-case",
                    "single-elements-by-row-and-column-lists-or-mask"]
BOUNDS = {"quick": "1500 programs of up to 12 steps for each of 5 encodings (ASCII, ACGT, ACGTN, amino acids, an alphabet made for the case), lists of up to 6 strings of length up to 8",
          "thorough": "12000 programs of up to 30 steps per encoding, lists of up to 12 strings of length up to 20"}
BUDGET_S = {"quick": 200, "thorough": 1500}

ENCODINGS = {"ascii": "abcXYZ,.;", "ACGT": "ACGT", "ACGTn": "ACGTN", "amino": "ACDEFGHIKLMNPQRSTVWY"}


def alphabet_of(name):
    return name[len("custom:"):] if name.startswith("custom:") else ENCODINGS[name]


def get_enc(name):
    import bionumpy as bnp
    from bionumpy.encodings.alphabet_encoding import ACGTEncoding, ACGTnEncoding, AminoAcidEncoding, AlphabetEncoding
    if name.startswith("custom:"):
        return AlphabetEncoding(name[len("custom:"):])         # an alphabet made for this case and dropped with it
    return {"ascii": bnp.encodings.BaseEncoding, "ACGT": ACGTEncoding, "ACGTn": ACGTnEncoding, "amino": AminoAcidEncoding}[name]


def _where(e):
    tb = traceback.extract_tb(e.__traceback__)
    return next((f"{os.path.basename(fr.filename)}:{fr.name}" for fr in reversed(tb) if "/bionumpy/" in fr.filename or "/npstructures/" in fr.filename), "?")


def observe(real):
    """Python-level value of a real object."""
    import numpy as np
    from bionumpy.encoded_array import EncodedArray, EncodedRaggedArray
    from npstructures import RaggedArray
    if isinstance(real, EncodedRaggedArray):
        return real.tolist()
    if isinstance(real, EncodedArray):
        if real.ndim == 2:
            return [r.to_string() for r in real]
        return real.to_string()
    if isinstance(real, RaggedArray):
        return real.tolist()
    if isinstance(real, np.ndarray):
        return real.tolist()
    if isinstance(real, (bool, np.bool_)):
        return bool(real)
    return real


def kind_of(model):
    if isinstance(model, str):
        return "flat"
    if isinstance(model, list) and all(isinstance(x, str) for x in model):
        return "ragged"
    return "bool"


def _other_letter(alphabet, ch):
    """a letter of the alphabet other than ch (ch itself may be a separator that an earlier join put into the text)"""
    return alphabet[(alphabet.index(ch) + 1) % len(alphabet)] if ch in alphabet else alphabet[0]


def norm_index(i, n):
    """map an arbitrary int to a valid index in [-n, n)"""
    return (i % (2 * n)) - n


def run(case, stats=None):
    import numpy as np
    import bionumpy as bnp
    from bionumpy.encoded_array import EncodedArray, EncodedRaggedArray
    from bionumpy.io import strops
    failures = []
    # alphabets over the same letters that were made, used for a comparison with a letter and dropped before this case's own was made
    for other_alphabet in case.get("prior_alphabets", ()):
        prior = get_enc("custom:" + other_alphabet)
        text = other_alphabet * 2
        flat = bnp.as_encoded_array(text, prior)
        for c in other_alphabet:
            got = np.asarray(flat == c).tolist()
            if got != [ch == c for ch in text]:
                failures.append(Failure("C07:result-differs:f_eq_char", {"alphabet": other_alphabet, "text": text, "letter": c,
                                                                          "expected": [ch == c for ch in text], "actual": got, "prior": True}))
        del prior, flat
    enc = get_enc(case["enc"])
    alphabet = alphabet_of(case["enc"])
    reals = [bnp.as_encoded_array(list(case["init"]), enc)]
    models = [list(case["init"])]
    kinds = ["ragged"]

    def push(real, model, op, check_encoding=True, keep=True, kind=None):
        if keep:
            reals.append(real)
            models.append(model)
            kinds.append(kind or ("bool" if not check_encoding else ("flat" if isinstance(model, str) else "ragged")))
        # what is looked at is a deep copy: reading a lazy view flattens it in place, and the object that stays in the pool for
        # later steps should reach them as the operation left it (in half of the cases; in the other half it has been read, as a user who prints it would)
        watched = real
        if case.get("untouched_results"):
            try:
                watched = copy.deepcopy(real)
            except Exception:
                watched = real
        got = observe(watched)
        if model == "" and got == []:
            got = ""          # an empty array has no text either way
        if got != model:
            failures.append(Failure(f"C07:result-differs:{op['op']}", {"op": op, "expected": model, "actual": got, "step": len(reals) - 2}))
        elif check_encoding and hasattr(real, "encoding") and real.encoding != enc:
            failures.append(Failure(f"C07:result-encoding:{op['op']}", {"op": op, "encoding": repr(real.encoding)}))

    if case.get("matrix"):
        # a two-dimensional encoded array: the rows cut to a common length (at least 1)
        rows_ = [m for m in case["init"] if m]
        if rows_:
            L0 = min(len(m) for m in rows_)
            mrows = [m[:L0] for m in rows_]
            push(bnp.as_encoded_array(mrows, enc).to_numpy_array(), mrows, {"op": "to_matrix"}, kind="matrix")
    for op in case["program"]:
        name = op["op"]
        # choose an operand of the right kind, deterministically from op["src"]
        want = op.get("on", "ragged")
        cands = [i for i, k in enumerate(kinds) if k == want]
        if not cands:
            continue
        si = cands[op["src"] % len(cands)]
        R, M = reals[si], models[si]
        n = len(M)
        try:
            if want == "ragged":
                if name == "row_int":
                    if n == 0:
                        continue
                    i = norm_index(op["i"], n)
                    push(R[i], M[i], op)
                elif name == "row_slice":
                    sl = slice(op.get("a"), op.get("b"), op.get("s"))
                    push(R[sl], M[sl], op)
                elif name == "row_mask":
                    bits = [bool(op["bits"][k % len(op["bits"])]) for k in range(n)]
                    push(R[np.array(bits, dtype=bool)], [m for m, b in zip(M, bits) if b], op)
                elif name == "row_ilist":
                    if n == 0:
                        continue
                    idx = [norm_index(k, n) for k in op["idx"]]
                    push(R[np.array(idx, dtype=int)], [M[k] for k in idx], op)
                elif name == "from_rows":
                    # the second way to construct: as_encoded_array of a list of encoded rows (empty rows included)
                    if n == 0:
                        continue
                    rows_ = [bnp.as_encoded_array(m, enc) for m in M]
                    push(bnp.as_encoded_array(rows_), list(M), op)
                    if op.get("compare"):
                        res = (R == rows_)
                        got_b = res.tolist() if hasattr(res, "tolist") else res
                        push(res, [[True] * len(m) for m in M], op, check_encoding=False, keep=False)
                elif name == "col_slice":
                    sl = slice(op.get("a"), op.get("b"), op.get("s"))
                    push(R[:, sl], [m[sl] for m in M], op)
                elif name == "cell":
                    if n == 0:
                        continue
                    minlen = min(len(m) for m in M)
                    if minlen == 0:
                        continue
                    j = norm_index(op["j"], minlen)
                    push(R[:, j], "".join(m[j] for m in M), op)
                elif name == "elems":
                    # single elements picked by a list of row numbers and a list of column numbers (position p of row r, pair by pair)
                    # (op['via']: the elements are picked from a view of the operand that nothing has read: columns reversed, rows reversed, first column cut off)
                    via = op.get("via", 0)
                    RV, MV = R, M
                    if via == 1:
                        RV, MV = R[:, ::-1], [m[::-1] for m in M]
                    elif via == 2:
                        RV, MV = R[::-1], M[::-1]
                    elif via == 3:
                        RV, MV = R[:, 1:], [m[1:] for m in M]
                    nonempty = [k for k, m in enumerate(MV) if m]
                    if not nonempty:
                        continue
                    rs = [nonempty[k % len(nonempty)] for k in op["rows"]]
                    cs = [norm_index(c_, len(MV[r_])) for r_, c_ in zip(rs, op["cols"])]
                    rs = rs[:len(cs)]
                    if not rs:
                        continue
                    as_arr = (lambda x: np.array(x, dtype=int)) if op.get("arr") else list
                    push(RV[as_arr(rs), as_arr(cs)], "".join(MV[r_][c_] for r_, c_ in zip(rs, cs)), op)
                elif name == "mask_elems":
                    # the letters at which the array equals a letter, taken with the boolean (ragged) mask itself
                    c = alphabet[op["c"] % len(alphabet)]
                    push(R[R == c], "".join(ch for m in M for ch in m if ch == c), op)
                elif name == "eq_char":
                    c = alphabet[op["c"] % len(alphabet)]
                    res = (R == c) if not op.get("ne") else (R != c)
                    push(res, [[(ch == c) != bool(op.get("ne")) for ch in m] for m in M], op, check_encoding=False)
                elif name == "eq_array":
                    # an equally shaped array: the same rows with some characters changed
                    other_m = ["".join(alphabet[(ord(ch) + op["k"]) % len(alphabet)] if (p + op["k"]) % 3 == 0 else ch for p, ch in enumerate(m)) for m in M]
                    other = bnp.as_encoded_array(other_m, enc) if other_m else R
                    push(R == other, [[a == b for a, b in zip(m, o)] for m, o in zip(M, other_m)], op, check_encoding=False)
                elif name == "concat":
                    c2 = cands[op["src2"] % len(cands)]
                    push(np.concatenate([R, reals[c2]]), M + models[c2], op)
                elif name == "copy":
                    push(R.copy(), list(M), op)
                elif name == "ravel":
                    push(R.ravel(), "".join(M), op)
                elif name == "join":
                    if n == 0:
                        continue
                    if case["enc"] == "ascii" and op.get("sep_k") is None:
                        sep = op.get("sep", ",")
                    elif op.get("sep_k") is not None:
                        sep = alphabet[op["sep_k"] % len(alphabet)]      # a letter of the operand's own alphabet as separator
                    else:
                        continue
                    if op.get("keep_last"):
                        push(strops.join(R, sep=sep, keep_last=True), sep.join(M) + sep, op)
                    else:
                        push(strops.join(R, sep=sep), sep.join(M), op)
                elif name == "str_equal" and op.get("other") == 3:
                    # two ragged operands: the same rows, some with the last character changed, some one character shorter; the second operand
                    # is either in the operand's encoding or still plain text (as_encoded_array of a list of str)
                    if n == 0:
                        continue
                    other_m = []
                    for r_, m in enumerate(M):
                        how = (r_ + op["i"]) % 3
                        if how == 1 and m:
                            m = m[:-1] + _other_letter(alphabet, m[-1])
                        elif how == 2 and m:
                            m = m[:-1]
                        other_m.append(m)
                    other = bnp.as_encoded_array(other_m, enc) if op["i"] % 2 else bnp.as_encoded_array(other_m)
                    res = strops.str_equal(R, other)
                    push(np.asarray(res), [m == o for m, o in zip(M, other_m)], op, check_encoding=False)
                elif name == "str_equal":
                    # (op['via']: the rows are compared through a view made on the spot that nothing has read: columns reversed, every second column, rows reversed)
                    via = op.get("via", 0)
                    RV, MV = R, M
                    if via == 1:
                        RV, MV = R[:, ::-1], [m[::-1] for m in M]
                    elif via == 2:
                        RV, MV = R[:, ::2], [m[::2] for m in M]
                    elif via == 3:
                        RV, MV = R[::-1], M[::-1]
                    if n and not op.get("other"):
                        target = MV[op["i"] % n]
                    elif n and op.get("other") == 2 and MV[op["i"] % n]:
                        base = MV[op["i"] % n]      # same length, same prefix, different last character
                        target = base[:-1] + _other_letter(alphabet, base[-1])
                    else:
                        target = "".join(alphabet[(k + op["i"]) % len(alphabet)] for k in range(op["i"] % 4))
                    res = strops.str_equal(RV, target)
                    push(np.asarray(res), [m == target for m in MV], op, check_encoding=False)
                elif name == "set_cell":
                    if n == 0:
                        continue
                    minlen = min(len(m) for m in M)
                    if minlen == 0:
                        continue
                    j = norm_index(op["j"], minlen)
                    c = alphabet[op["c"] % len(alphabet)]
                    new = R.copy()
                    new[:, j] = c
                    jj = j % minlen if j >= 0 else j
                    push(new, [m[:jj] + c + m[jj + 1:] if jj != -1 else m[:-1] + c for m in M], op)
                elif name == "set_row":
                    if n == 0:
                        continue
                    i = norm_index(op["i"], n)
                    L = len(M[i])
                    s = "".join(alphabet[(k + op["c"]) % len(alphabet)] for k in range(L))
                    new = R.copy()
                    new[i] = s
                    mm = list(M)
                    mm[i] = s
                    push(new, mm, op)
                elif name == "set_block":
                    minlen = min((len(m) for m in M), default=0)
                    if n == 0 or minlen == 0:
                        continue
                    a = op["a"] % n
                    b = a + 1 + (op["b"] % (n - a))
                    w = 1 + op["w"] % minlen
                    block_m = ["".join(alphabet[(k + r + op["c"]) % len(alphabet)] for k in range(w)) for r in range(b - a)]
                    new = R.copy()
                    new[a:b, 0:w] = bnp.as_encoded_array(block_m, enc)
                    mm = list(M)
                    for r in range(a, b):
                        mm[r] = block_m[r - a] + mm[r][w:]
                    push(new, mm, op)
                else:
                    continue
                if name.startswith("set_") and not failures:
                    if observe(R) != M:
                        failures.append(Failure("C07:assignment-to-copy-changed-original", {"op": op, "original_model": M, "original_now": observe(R)}))
            elif want == "flat":
                L = len(M)
                if name == "f_int":
                    if L == 0:
                        continue
                    i = norm_index(op["i"], L)
                    push(R[i], M[i], op, keep=False)     # a single character is a 0-d array, like a NumPy scalar: not indexable further
                elif name == "f_slice":
                    sl = slice(op.get("a"), op.get("b"), op.get("s"))
                    push(R[sl], M[sl], op)
                elif name == "f_mask":
                    bits = [bool(op["bits"][k % len(op["bits"])]) for k in range(L)]
                    push(R[np.array(bits, dtype=bool)], "".join(c for c, b in zip(M, bits) if b), op)
                elif name == "f_ilist":
                    if L == 0:
                        continue
                    idx = [norm_index(k, L) for k in op["idx"]]
                    push(R[np.array(idx, dtype=int)], "".join(M[k] for k in idx), op)
                elif name == "f_eq_char":
                    c = alphabet[op["c"] % len(alphabet)]
                    push(np.asarray(R != c if op.get("ne") else R == c), [(ch == c) != bool(op.get("ne")) for ch in M], op, check_encoding=False)
                elif name == "f_eq_string":
                    s = "".join(alphabet[(ord(ch) + op["k"]) % len(alphabet)] if (p + op["k"]) % 3 == 0 else ch for p, ch in enumerate(M))
                    if L == 0:
                        continue
                    push(np.asarray(R != s if op.get("ne") else R == s), [(a == b) != bool(op.get("ne")) for a, b in zip(M, s)], op, check_encoding=False)
                elif name == "f_concat":
                    flats = [i for i, k in enumerate(kinds) if k == "flat" and len(models[i]) > 0]
                    if not flats or L == 0:
                        continue
                    c2 = flats[op["src2"] % len(flats)]
                    push(np.concatenate([R, reals[c2]]), M + models[c2], op)
                elif name == "f_copy":
                    push(R.copy(), M, op)
                elif name == "f_where":
                    # np.where(mask, a, b) with b another text of the same length over the alphabet
                    if L == 0:
                        continue
                    other_m = "".join(alphabet[(p_ * 3 + op["k"]) % len(alphabet)] for p_ in range(L))
                    bits = [bool(op["bits"][k % len(op["bits"])]) for k in range(L)]
                    push(np.where(np.array(bits, dtype=bool), R, bnp.as_encoded_array(other_m, enc)), "".join(a if b else o for a, o, b in zip(M, other_m, bits)), op)
                elif name == "f_append":
                    tail = "".join(alphabet[(k * 5 + op["k"]) % len(alphabet)] for k in range(1 + op["k"] % 4))
                    push(np.append(R, bnp.as_encoded_array(tail, enc)), M + tail, op)
                elif name == "f_insert":
                    if L == 0:
                        continue
                    at = op["i"] % (L + 1)
                    c = alphabet[op["k"] % len(alphabet)]
                    push(np.insert(R, at, bnp.as_encoded_array(c, enc)), M[:at] + c + M[at:], op)
                elif name == "f_full_like":
                    c = alphabet[op["k"] % len(alphabet)]
                    push(np.full_like(R, c), c * L, op)
                elif name == "f_windows":
                    w_ = 1 + op["k"] % 4
                    if L < w_:
                        continue
                    win = np.lib.stride_tricks.sliding_window_view(R, w_)
                    got_rows = [win[i_].to_string() for i_ in range(L - w_ + 1)]
                    want_rows = [M[i_:i_ + w_] for i_ in range(L - w_ + 1)]
                    if got_rows != want_rows or win.encoding != R.encoding:
                        return [Failure("C07:result-differs:f_windows", {"op": op, "expected": want_rows[:8], "actual": got_rows[:8], "encoding_kept": win.encoding == R.encoding})]
                elif name == "literal":
                    # build a flat array from a string literal, assign into it, build the same literal again:
                    # the two arrays are independent objects, as two np.array(list(text)) would be
                    lit = "".join(alphabet[(k * 7 + op["k"]) % len(alphabet)] for k in range(1 + op["n"] % 12))
                    a = bnp.as_encoded_array(lit, enc)
                    p = op["p"] % len(lit)
                    c = _other_letter(alphabet, lit[p])
                    try:
                        a[p:p + 1] = c
                    except ValueError:
                        continue      # read-only buffer (base-encoded literals): nothing to observe
                    changed = lit[:p] + c + lit[p + 1:]
                    push(a, changed, op)
                    push(bnp.as_encoded_array(lit, enc), lit, op)
                    push(np.asarray(a == lit), [x == y for x, y in zip(changed, lit)], op, check_encoding=False)
                elif name == "split":
                    if L == 0:
                        continue
                    if case["enc"] == "ascii" and not op.get("seps"):
                        push(strops.split(R, sep=","), M.split(","), op)
                    elif op.get("seps"):
                        # separators taken from the operand's own alphabet, given as one letter or as a list of letters
                        import re
                        seps = sorted({alphabet[k % len(alphabet)] for k in op["seps"]})
                        want_rows = re.split("[" + "".join(re.escape(c_) for c_ in seps) + "]", M)
                        sep_arg = seps[0] if (len(seps) == 1 and op.get("as_str")) else list(seps)
                        push(strops.split(R, sep=sep_arg), want_rows, op)
                else:
                    continue
            if want == "matrix":
                W = len(M[0]) if M else 0
                if name == "m_row_int":
                    if n:
                        i = norm_index(op["i"], n)
                        push(R[i], M[i], op)
                elif name == "m_rows":
                    how = op["how"]
                    if how == "slice":
                        sl = slice(op.get("a"), op.get("b"), op.get("s"))
                        push(R[sl], M[sl], op, kind="matrix")
                    elif how == "mask":
                        bits = [bool(op["bits"][k % len(op["bits"])]) for k in range(n)]
                        push(R[np.array(bits, dtype=bool)], [m for m, b in zip(M, bits) if b], op, kind="matrix")
                    elif n:
                        idx = [norm_index(k, n) for k in op["idx"]]
                        push(R[np.array(idx, dtype=int)], [M[k] for k in idx], op, kind="matrix")
                elif name == "m_cols":
                    how = op["how"]
                    if how == "slice":
                        sl = slice(op.get("a"), op.get("b"), op.get("s"))
                        push(R[:, sl], [m[sl] for m in M], op, kind="matrix")
                    elif how == "mask":
                        bits = [bool(op["bits"][k % len(op["bits"])]) for k in range(W)]
                        push(R[:, np.array(bits, dtype=bool)], ["".join(ch for ch, b in zip(m, bits) if b) for m in M], op, kind="matrix")
                    elif W:
                        idx = [norm_index(k, W) for k in op["idx"]]
                        push(R[:, np.array(idx, dtype=int)], ["".join(m[k] for k in idx) for m in M], op, kind="matrix")
                elif name == "m_cell":
                    if n and W:
                        i, j = norm_index(op["i"], n), norm_index(op["j"], W)
                        push(R[i, j], M[i][j], op, keep=False)      # a 0-d result is observed but not used as an operand
                elif name == "m_ravel":
                    push(R.ravel(), "".join(M), op)
                elif name == "m_copy":
                    push(R.copy(), list(M), op, kind="matrix")
                elif name == "m_reencode":
                    # to plain text and back to the array's own encoding: the same rows
                    from bionumpy.encoded_array import change_encoding
                    plain = change_encoding(R, bnp.encodings.BaseEncoding)
                    push(plain, list(M), op, check_encoding=False, keep=False, kind="matrix")
                    push(change_encoding(plain, enc), list(M), op, kind="matrix")
                elif name == "m_eq_char":
                    c = alphabet[op["c"] % len(alphabet)]
                    res = (R != c) if op.get("ne") else (R == c)
                    push(np.asarray(res), [[(ch != c) if op.get("ne") else (ch == c) for ch in m] for m in M], op, check_encoding=False)
                elif name == "m_concat":
                    cands2 = [i2 for i2, k2 in enumerate(kinds) if k2 == "matrix" and models[i2] and M and len(models[i2][0]) == W]
                    if cands2:
                        s2 = cands2[op["src2"] % len(cands2)]
                        push(np.concatenate([R, reals[s2]]), M + models[s2], op, kind="matrix")
                if failures:
                    break
                continue
        except Exception as e:  # noqa: every generated operation is in range, so an exception is a difference from the model
            failures.append(Failure(f"C07:raised:{name}:{type(e).__name__}:{_where(e)}", {"op": op, "operand_model": M, "error": repr(e)[:300]}))
        if failures:
            break
    return failures, models


def classify(case):
    prog = case["program"]
    names = [op["op"] for op in prog]
    init = case["init"]
    cl = [case["enc"]]
    view_ops = {"row_slice", "row_mask", "row_ilist", "col_slice", "row_int", "f_slice"}
    first_view = next((i for i, k in enumerate(names) if k in view_ops), None)
    view_then = first_view is not None and first_view < len(names) - 1
    if view_then:
        cl.append("view-then-op")
    if any(s == "" for s in init):
        cl.append("empty-row")
    if len({len(s) for s in init}) > 1:
        cl.append("unequal-rows")
    if len(init) == 1:
        cl.append("single-row")
    if any(k.startswith("set_") for k in names):
        cl.append("setitem")
    if "concat" in names or "f_concat" in names:
        cl.append("concat")
    if "eq_array" in names:
        cl.append("compare-array")
    if "split" in names or "join" in names:
        cl.append("split-join")
    if any(op.get("i", 0) % 2 == 0 for op in prog if op["op"] in ("row_int", "f_int")) or any((op.get("a") or 0) < 0 for op in prog):
        cl.append("negative-index")
    if any((op["op"] in ("row_mask", "f_mask") and not any(op["bits"])) for op in prog):
        cl.append("empty-selection")
    if "from_rows" in names:
        cl.append("built-from-encoded-rows")
    if case["enc"].startswith("custom:"):
        cl.append("alphabet-made-for-the-case")
    if any(op["op"] in ("elems", "mask_elems") for op in prog[1:]):
        cl.append("single-elements-by-row-and-column-lists-or-mask")
    if case.get("prior_alphabets"):
        cl.append("other-alphabets-made-and-dropped-first")
    if case.get("untouched_results") and len(prog) >= 2:
        cl.append("results-reach-later-steps-unread")
    if case["enc"] != "ascii" and any(op["op"] == "join" and op.get("sep_k") is not None for op in prog):
        cl.append("join-of-encoded-rows")
    if any(op["op"] == "split" and op.get("seps") and not op.get("as_str") for op in prog):
        cl.append("split-on-a-list-of-letters")
    if any(op["op"] in ("f_where", "f_append", "f_insert", "f_full_like", "f_windows") for op in prog):
        cl.append("numpy-array-function-on-flat-array")
    if any(op["op"] == "str_equal" and op.get("other") == 3 for op in prog):
        cl.append("str-equal-of-two-ragged-arrays")
    if case.get("matrix"):
        cl.append("two-dimensional")
        for i, op in enumerate(prog):
            if op["op"] == "m_cols" and op["how"] in ("mask", "ilist") and any(o["op"] == "m_ravel" for o in prog[i + 1:]):
                cl.append("fancy-columns-then-ravel")
    nontrivial = view_then and len(prog) >= 2 and (("empty-row" in cl) or ("unequal-rows" in cl))
    return nontrivial, cl


def check(case, stats=None):
    failures, _ = run(case, stats)
    return failures[:1]


# ---------------------------------------------------------------------------------------

def op_strategy(with_matrix=False):
    src = st.integers(0, 20)
    small = st.one_of(st.none(), st.integers(-6, 6))
    step = st.one_of(st.none(), st.sampled_from([1, 2, -1, -2, 3]))
    bits = st.lists(st.booleans(), min_size=1, max_size=6).map(lambda b: [int(x) for x in b])
    ragged = [
        st.builds(lambda s, i: {"op": "row_int", "src": s, "i": i}, src, st.integers(0, 30)),
        st.builds(lambda s, a, b, c: {"op": "row_slice", "src": s, "a": a, "b": b, "s": c}, src, small, small, step),
        st.builds(lambda s: {"op": "row_slice", "src": s, "a": None, "b": None, "s": -1}, src),
        st.builds(lambda s, b: {"op": "row_mask", "src": s, "bits": b}, src, bits),
        st.builds(lambda s, i: {"op": "row_ilist", "src": s, "idx": i}, src, st.lists(st.integers(0, 30), max_size=5)),
        st.builds(lambda s, a, b: {"op": "col_slice", "src": s, "a": a, "b": b, "s": None}, src, small, small),
        st.builds(lambda s: {"op": "col_slice", "src": s, "a": None, "b": None, "s": -1}, src),
        st.builds(lambda s, j: {"op": "cell", "src": s, "j": j}, src, st.integers(0, 20)),
        st.builds(lambda s, r, c, a, v: {"op": "elems", "src": s, "rows": r, "cols": c, "arr": int(a), "via": v}, src, st.lists(st.integers(0, 30), min_size=1, max_size=4),
                  st.lists(st.integers(0, 30), min_size=1, max_size=4), st.booleans(), st.integers(0, 3)),
        st.builds(lambda s, c: {"op": "mask_elems", "src": s, "c": c}, src, st.integers(0, 25)),
        st.builds(lambda s, c, ne: {"op": "eq_char", "src": s, "c": c, "ne": int(ne)}, src, st.integers(0, 25), st.booleans()),
        st.builds(lambda s, k: {"op": "eq_array", "src": s, "k": k}, src, st.integers(0, 9)),
        st.builds(lambda s, t: {"op": "concat", "src": s, "src2": t}, src, src),
        st.builds(lambda s: {"op": "copy", "src": s}, src),
        st.builds(lambda s: {"op": "ravel", "src": s}, src),
        st.builds(lambda s, c: {"op": "from_rows", "src": s, "compare": int(c)}, src, st.booleans()),
        st.builds(lambda s, p: {"op": "join", "src": s, "sep": p}, src, st.sampled_from([",", ";", "\t"])),
        st.builds(lambda s, k, kl: {"op": "join", "src": s, "sep_k": k, "keep_last": int(kl)}, src, st.integers(0, 25), st.booleans()),
        st.builds(lambda s, i, o, v: {"op": "str_equal", "src": s, "i": i, "other": o, **({"via": v} if v and o != 3 else {})}, src, st.integers(0, 20),
                  st.sampled_from([0, 1, 2, 2, 3, 3]), st.sampled_from([0, 0, 1, 2, 3])),
        st.builds(lambda s, j, c: {"op": "set_cell", "src": s, "j": j, "c": c}, src, st.integers(0, 20), st.integers(0, 25)),
        st.builds(lambda s, i, c: {"op": "set_row", "src": s, "i": i, "c": c}, src, st.integers(0, 30), st.integers(0, 25)),
        st.builds(lambda s, a, b, w, c: {"op": "set_block", "src": s, "a": a, "b": b, "w": w, "c": c}, src, st.integers(0, 20), st.integers(0, 20),
                  st.integers(0, 20), st.integers(0, 25)),
    ]
    flat = [
        st.builds(lambda s, i: {"op": "f_int", "on": "flat", "src": s, "i": i}, src, st.integers(0, 40)),
        st.builds(lambda s, a, b, c: {"op": "f_slice", "on": "flat", "src": s, "a": a, "b": b, "s": c}, src, small, small, step),
        st.builds(lambda s, b: {"op": "f_mask", "on": "flat", "src": s, "bits": b}, src, bits),
        st.builds(lambda s, i: {"op": "f_ilist", "on": "flat", "src": s, "idx": i}, src, st.lists(st.integers(0, 40), max_size=5)),
        st.builds(lambda s, c, ne: {"op": "f_eq_char", "on": "flat", "src": s, "c": c, "ne": int(ne)}, src, st.integers(0, 25), st.booleans()),
        st.builds(lambda s, k, ne: {"op": "f_eq_string", "on": "flat", "src": s, "k": k, "ne": int(ne)}, src, st.integers(0, 9), st.booleans()),
        st.builds(lambda s, t: {"op": "f_concat", "on": "flat", "src": s, "src2": t}, src, src),
        st.builds(lambda s: {"op": "f_copy", "on": "flat", "src": s}, src),
        st.builds(lambda s: {"op": "split", "on": "flat", "src": s}, src),
        st.builds(lambda s, k, a: {"op": "split", "on": "flat", "src": s, "seps": k, "as_str": int(a)}, src, st.lists(st.integers(0, 25), min_size=1, max_size=2), st.booleans()),
        st.builds(lambda s, b, k: {"op": "f_where", "on": "flat", "src": s, "bits": b, "k": k}, src, bits, st.integers(0, 9)),
        st.builds(lambda s, k: {"op": "f_append", "on": "flat", "src": s, "k": k}, src, st.integers(0, 30)),
        st.builds(lambda s, i, k: {"op": "f_insert", "on": "flat", "src": s, "i": i, "k": k}, src, st.integers(0, 40), st.integers(0, 30)),
        st.builds(lambda s, k: {"op": "f_full_like", "on": "flat", "src": s, "k": k}, src, st.integers(0, 30)),
        st.builds(lambda s, k: {"op": "f_windows", "on": "flat", "src": s, "k": k}, src, st.integers(0, 30)),
        st.builds(lambda s, k, n, p: {"op": "literal", "on": "flat", "src": s, "k": k, "n": n, "p": p}, src, st.integers(0, 30), st.integers(0, 30), st.integers(0, 30)),
    ]
    matrix = [
        st.builds(lambda s, i: {"op": "m_row_int", "on": "matrix", "src": s, "i": i}, src, st.integers(0, 30)),
        st.builds(lambda s, a, b, c: {"op": "m_rows", "on": "matrix", "src": s, "how": "slice", "a": a, "b": b, "s": c}, src, small, small, step),
        st.builds(lambda s, b: {"op": "m_rows", "on": "matrix", "src": s, "how": "mask", "bits": b}, src, bits),
        st.builds(lambda s, i: {"op": "m_rows", "on": "matrix", "src": s, "how": "ilist", "idx": i}, src, st.lists(st.integers(0, 30), min_size=1, max_size=5)),
        st.builds(lambda s, a, b, c: {"op": "m_cols", "on": "matrix", "src": s, "how": "slice", "a": a, "b": b, "s": c}, src, small, small, step),
        st.builds(lambda s, b: {"op": "m_cols", "on": "matrix", "src": s, "how": "mask", "bits": b}, src, bits),
        st.builds(lambda s, i: {"op": "m_cols", "on": "matrix", "src": s, "how": "ilist", "idx": i}, src, st.lists(st.integers(0, 30), min_size=1, max_size=5)),
        st.builds(lambda s, i, j: {"op": "m_cell", "on": "matrix", "src": s, "i": i, "j": j}, src, st.integers(0, 30), st.integers(0, 30)),
        st.builds(lambda s: {"op": "m_ravel", "on": "matrix", "src": s}, src),
        st.builds(lambda s: {"op": "m_ravel", "on": "matrix", "src": s}, src),
        st.builds(lambda s: {"op": "m_copy", "on": "matrix", "src": s}, src),
        st.builds(lambda s: {"op": "m_reencode", "on": "matrix", "src": s}, src),
        st.builds(lambda s, c, ne: {"op": "m_eq_char", "on": "matrix", "src": s, "c": c, "ne": int(ne)}, src, st.integers(0, 25), st.booleans()),
        st.builds(lambda s, t: {"op": "m_concat", "on": "matrix", "src": s, "src2": t}, src, src),
    ]
    return st.one_of(*(ragged + flat)) if not with_matrix else st.one_of(*(matrix + matrix + ragged[:6] + flat[:4]))


@st.composite
def c07_case(draw, enc, max_rows, max_len, max_steps):
    priors = []
    if enc == "custom":
        enc = "custom:" + "".join(draw(st.permutations(list("ACGTXYVBS")))[:draw(st.integers(3, 6))])
        priors = ["".join(draw(st.permutations(list(alphabet_of(enc))))) for _ in range(draw(st.integers(0, 3)))]
    alphabet = alphabet_of(enc)
    n = draw(st.one_of(st.integers(0, max_rows), st.integers(1, max_rows), st.just(1)))
    rows = [draw(st.one_of(st.just(""), st.text(alphabet=alphabet, min_size=0, max_size=max_len), st.text(alphabet=alphabet, min_size=1, max_size=3)))
            for _ in range(n)]
    if draw(st.integers(0, 3)) == 0:
        # programs on a two-dimensional encoded array (the rows cut to a common length)
        rows = [r for r in rows if r] or [draw(st.text(alphabet=alphabet, min_size=1, max_size=max_len))]
        extra = draw(st.integers(2, max(2, max_len)))
        rows = [(r * extra)[:extra] if draw(st.booleans()) else r for r in rows]
        return {"enc": enc, "init": rows, "matrix": True, "program": draw(st.lists(op_strategy(True), min_size=1, max_size=max_steps)),
                "untouched_results": draw(st.booleans()), **({"prior_alphabets": priors} if priors else {})}
    return {"enc": enc, "init": rows, "program": draw(st.lists(op_strategy(), min_size=1, max_size=max_steps)), "untouched_results": draw(st.booleans()),
            **({"prior_alphabets": priors} if priors else {})}


def task_enc(stats, known_open, enc, n, seed, max_rows, max_len, max_steps):
    import sys
    core.run_hypothesis(sys.modules[__name__], c07_case(enc, max_rows, max_len, max_steps), stats, known_open, max_examples=n, seed=seed)


def tasks(tier, seed):
    n, mr, ml, ms, reps = (1500, 6, 8, 12, 1) if tier == "quick" else (3000, 12, 20, 30, 4)
    out = []
    for i, enc in enumerate(list(ENCODINGS) + ["custom"]):
        for j in range(reps):
            out.append(("task_enc", dict(enc=enc, n=n, seed=seed * 1000 + i * 10 + j, max_rows=mr, max_len=ml, max_steps=ms)))
    return out
