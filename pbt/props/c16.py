"""C16  BAM records decode to the values the BAM specification defines."""
import gzip
import os
import tempfile
import traceback

from hypothesis import strategies as st

from pbt import bamenc, core
from pbt.core import Failure

ID = "C16"
RULE = ("BAM files produced by an independent encoder written from the specification (pbt/bamenc.py), compressed as one gzip member or as a "
        "multi-member stream with arbitrary block cuts: 0..4 references; read names of 1..254 characters; 0..K CIGAR operations of all nine kinds; "
        "sequence length 0..L of both parities over the 16-letter code; qualities 0..93 or 0xFF throughout; optional tag bytes; unmapped records "
        "with reference -1. Crossed with chunk sizes from the largest record upward (every size for small files, sampled for large), and with "
        "whole, filtered and reordered writing through bnp.open(path, 'w'). The repository's own example BAM/SAM pair is used as an extra seed. "
        "Oracle: the generated records: reference name (for -1 anything that is not a real reference name, or an exception), read name, flag, "
        "position, mapping quality, CIGAR operations and lengths, sequence, qualities; chunked rows == whole rows; alignment_to_interval and "
        "BamIntervalBuffer give start = position, stop = position + summed M/D/N/=/X lengths, strand from flag 0x10; written files decode to the "
        "selected records and their record bytes are the original bytes. "
        "Non-trivial: >= 2 records that differ in name length, CIGAR count or sequence parity.")
ASSUMPTIONS = [
    "The encoder follows the specification but is ours; the example BAM in the repository (made by another tool) is decoded and compared with its SAM text as a cross-check.",
    "Chunk sizes are at least the size of the largest record including its 4-byte length prefix.",
    "For unmapped records the decoded reference name may be any text that is not the name of a real reference (e.g. '*' or ''), or the read may raise.",
]
REQUIRED_CLASSES = ["odd-sequence-length", "even-sequence-length", "empty-sequence", "long-read-name", "all-cigar-ops", "no-cigar", "missing-qualities",
                    "unmapped", "tags", "multi-member-gzip", "chunked", "write-filtered", "write-reordered", "reverse-strand", "stream-ends-in-a-line-feed-byte", "another-bam-read-first-then-write", "16384-or-more-cigar-operations"]
BOUNDS = {"quick": "480 files of up to 6 records (names up to 254, sequences up to 40), all admissible chunk sizes for small files",
          "thorough": "4000 files of up to 40 records, sequences up to 300"}
BUDGET_S = {"quick": 200, "thorough": 1500}


def _where(e):
    tb = traceback.extract_tb(e.__traceback__)
    return next((f"{os.path.basename(fr.filename)}:{fr.name}" for fr in reversed(tb) if "/bionumpy/" in fr.filename), "?")


def norm(rec):
    return dict(rec, cigar=[(op, int(n)) for op, n in rec["cigar"]], tags=bytes.fromhex(rec.get("tags", "")), qual=rec.get("qual"))


def classify(case):
    recs = case["records"]
    cl = []
    for r in recs:
        L = len(r["seq"])
        cl.append("empty-sequence" if L == 0 else ("odd-sequence-length" if L % 2 else "even-sequence-length"))
        if len(r["name"]) >= 219:
            cl.append("long-read-name")
        if not r["cigar"]:
            cl.append("no-cigar")
        if r.get("qual") is None and L:
            cl.append("missing-qualities")
        if r["ref"] == -1:
            cl.append("unmapped")
        if r.get("tags"):
            cl.append("tags")
        if r["flag"] & 16:
            cl.append("reverse-strand")
    if any(len(r["cigar"]) >= 16384 for r in recs):
        cl.append("16384-or-more-cigar-operations")
    if {op for r in recs for op, _ in r["cigar"]} >= set("MIDNSHP=X"):
        cl.append("all-cigar-ops")
    if recs and bamenc.record_bytes(norm(recs[-1]))[-1:] == b"\n":
        cl.append("stream-ends-in-a-line-feed-byte")
    if case.get("prior_read") and recs and case.get("write"):
        cl.append("another-bam-read-first-then-write")
    if case.get("cuts"):
        cl.append("multi-member-gzip")
    if case.get("ks"):
        cl.append("chunked")
    w = case.get("write")
    if w:
        cl.append("write-" + w["how"])
    keys = {(len(r["name"]), len(r["cigar"]), len(r["seq"]) % 2) for r in recs}
    return len(recs) >= 2 and len(keys) >= 2, sorted(set(cl))


def expected_row(rec, refs):
    return {"name": rec["name"], "flag": rec["flag"], "position": rec["pos"], "mapq": rec["mapq"],
            "cigar_op": "".join(op for op, n in rec["cigar"]), "cigar_length": [n for op, n in rec["cigar"]],
            "sequence": rec["seq"], "quality": list(rec["qual"]) if rec.get("qual") is not None else [255] * len(rec["seq"]),
            "chromosome": refs[rec["ref"]][0] if rec["ref"] >= 0 else None}


def table_dicts(t):
    import numpy as np
    n = len(t)
    cols = {
        "chromosome": t.chromosome.tolist(), "name": t.name.tolist(), "flag": np.asarray(t.flag).tolist(), "position": np.asarray(t.position).tolist(),
        "mapq": np.asarray(t.mapq).tolist(), "cigar_op": t.cigar_op.tolist(), "cigar_length": [list(map(int, r)) for r in t.cigar_length.tolist()],
        "sequence": t.sequence.tolist(), "quality": [list(map(int, r)) for r in (t.quality.raw().tolist() if hasattr(t.quality, "raw") else t.quality.tolist())],
    }
    return [{k: v[i] for k, v in cols.items()} for i in range(n)]


def compare(rows, recs, refs, what):
    if len(rows) != len(recs):
        return Failure(f"C16:record-count:{what}", {"expected": len(recs), "actual": len(rows)})
    real_names = {n for n, _ in refs}
    for i, (got, rec) in enumerate(zip(rows, recs)):
        exp = expected_row(rec, refs)
        for key, want in exp.items():
            if key == "chromosome" and want is None:
                if got[key] in real_names:
                    return Failure("C16:unmapped-gets-reference-name", {"record": i, "decoded": got[key], "references": sorted(real_names)})
                continue
            if got[key] != want:
                return Failure(f"C16:field:{key}:{what}", {"record": i, "expected": want if not isinstance(want, (str, list)) or len(want) < 60 else str(want)[:60],
                                                          "actual": got[key] if not isinstance(got[key], (str, list)) or len(got[key]) < 60 else str(got[key])[:60],
                                                          "name_length": len(rec["name"]), "seq_length": len(rec["seq"]), "n_cigar": len(rec["cigar"])})
    return None


def check(case, stats=None):
    import numpy as np
    import bionumpy as bnp
    from bionumpy.io.bam import BamIntervalBuffer
    refs = [tuple(r) for r in case["refs"]]
    recs = [norm(r) for r in case["records"]]
    raw = bamenc.raw_bam(refs, recs, case.get("text", ""))
    comp = bamenc.compress(raw, case.get("cuts"))
    unmapped = any(r["ref"] == -1 for r in recs)
    with tempfile.TemporaryDirectory(prefix="pbtc16") as d:
        path = os.path.join(d, "x.bam")
        with open(path, "wb") as f:
            f.write(comp)
        if case.get("prior_read") and recs:
            # another BAM with another header (other reference names, one record) is read first in the same process
            prefs = [("p" + n_, s_ + 1) for n_, s_ in refs] or [("pchr", 7)]
            prec = dict(recs[0], ref=0 if recs[0]["ref"] >= 0 else -1, name="prior")
            with open(os.path.join(d, "prior.bam"), "wb") as f:
                f.write(bamenc.compress(bamenc.raw_bam(prefs, [prec], ""), None))
            try:
                pt = bnp.open(os.path.join(d, "prior.bam")).read()
                pt.name.tolist()
            except Exception as e:
                return [Failure(f"C16:raised:prior-file:{type(e).__name__}:{_where(e)}", {"error": repr(e)[:300]})]
        try:
            whole = None
            for lazy in (True, False):
                t = bnp.open(path, lazy=lazy).read()
                rows = table_dicts(t) if len(recs) else []
                fail = compare(rows, recs, refs, "lazy" if lazy else "eager")
                if fail:
                    return [fail]
                whole = t if lazy else whole
            # the library's own count of the records of the file
            if recs:
                n_counted = bnp.count_entries(path)
                if n_counted != len(recs):
                    return [Failure("C16:count_entries", {"expected": len(recs), "actual": int(n_counted)})]
            largest = max((len(bamenc.record_bytes(r)) for r in recs), default=1)
            for k in case.get("ks", []):
                k = max(k, largest)
                rows = []
                for chunk in bnp.open(path).read_chunks(min_chunk_size=k):
                    rows.extend(table_dicts(chunk))
                fail = compare(rows, recs, refs, "chunked")
                if fail:
                    fail.detail["chunk_size"] = k
                    fail.detail["largest_record"] = largest
                    return [fail]
            if recs:
                # intervals
                want = [(r["pos"], r["pos"] + bamenc.ref_consumed(r["cigar"]), "-" if r["flag"] & 16 else "+") for r in recs]
                for lazy in (False, True):
                    src = bnp.open(path, lazy=lazy).read()
                    iv = bnp.alignments.alignment_to_interval(src)
                    got = list(zip(np.asarray(iv.start).tolist(), np.asarray(iv.stop).tolist(), [s for s in iv.strand.ravel().to_string()]))
                    if got != want:
                        return [Failure("C16:alignment_to_interval", {"expected": want[:5], "actual": got[:5], "lazy": lazy})]
                    # the records the intervals were taken from still decode to the same values, and so does a selection made on the flag afterwards
                    fail = compare(table_dicts(src), recs, refs, "after-alignment_to_interval")
                    if fail:
                        return [fail]
                    keep = [i for i, r in enumerate(recs) if not r["flag"] & 4]
                    sel = src[(np.asarray(src.flag) & 4) == 0]
                    fail = compare(table_dicts(sel) if len(keep) else [], [recs[i] for i in keep], refs, "mapped-selection-after-alignment_to_interval") \
                        if len(sel) == len(keep) else Failure("C16:record-count:mapped-selection-after-alignment_to_interval", {"expected": len(keep), "actual": len(sel)})
                    if fail:
                        return [fail]
                # the same function handed the stream of chunks the reader gives out: one table of intervals per chunk, none left out
                for k in case.get("ks", [])[:2]:
                    k = max(k, largest)
                    got = []
                    for iv in bnp.alignments.alignment_to_interval(bnp.open(path).read_chunks(min_chunk_size=k)):
                        got.extend(zip(np.asarray(iv.start).tolist(), np.asarray(iv.stop).tolist(), [s for s in iv.strand.ravel().to_string()]))
                    if got != want:
                        return [Failure("C16:alignment_to_interval:stream-of-chunks", {"chunk_size": k, "expected_n": len(want), "actual_n": len(got),
                                                                                   "expected": want[:5], "actual": got[:5]})]
                iv2 = bnp.open(path, buffer_type=BamIntervalBuffer, lazy=False).read()
                got = list(zip(np.asarray(iv2.start).tolist(), np.asarray(iv2.stop).tolist(), [s for s in iv2.strand.ravel().to_string()]))
                if got != want:
                    return [Failure("C16:BamIntervalBuffer", {"expected": want[:5], "actual": got[:5]})]
                if iv2.name.tolist() != [r["name"] for r in recs]:
                    return [Failure("C16:BamIntervalBuffer-names", {"expected": [r["name"][:20] for r in recs][:5], "actual": [x[:20] for x in iv2.name.tolist()][:5]})]
            w = case.get("write")
            if w and recs:
                n = len(recs)
                if w["how"] == "whole":
                    idx = list(range(n))
                    sel = whole
                elif w["how"] == "filtered":
                    bits = [bool(w["bits"][i % len(w["bits"])]) for i in range(n)]
                    idx = [i for i, b in enumerate(bits) if b]
                    sel = whole[np.array(bits, dtype=bool)]
                else:
                    idx = [i % n for i in w["order"]]
                    sel = whole[np.array(idx, dtype=int)]
                out = os.path.join(d, "y.bam")
                with bnp.open(out, "w") as f:
                    f.write(sel)
                back = gzip.decompress(open(out, "rb").read())
                want_bytes = bamenc.header_bytes(refs, case.get("text", "")) + b"".join(bamenc.record_bytes(recs[i]) for i in idx)
                if back != want_bytes:
                    return [Failure(f"C16:written-bytes:{w['how']}", {"expected_size": len(want_bytes), "actual_size": len(back), "selection": idx[:10]})]
                rows = table_dicts(bnp.open(out).read()) if idx else []
                fail = compare(rows, [recs[i] for i in idx], refs, "written-" + w["how"])
                if fail:
                    return [fail]
        except Exception as e:  # noqa
            if unmapped and isinstance(e, IndexError):
                if stats is not None:
                    stats.raised_allowed["unmapped-raises"] += 1
                return []
            return [Failure(f"C16:raised:{type(e).__name__}:{_where(e)}", {"error": repr(e)[:300]})]
    return []


def task_example_files(stats, known_open):
    """Cross-check of the oracle: the repository's example BAM (made by another tool) against the SAM text of the same alignments."""
    import bionumpy as bnp
    import numpy as np
    bam, sam = "/repo/example_data/test.bam", "/repo/example_data/test.sam"
    if not (os.path.exists(bam) and os.path.exists(sam)):
        return
    t = bnp.open(bam, lazy=False).read()
    lines = [l.rstrip("\n").split("\t") for l in open(sam) if not l.startswith("@")]
    rows = table_dicts(t)
    n_ok = 0
    for got, f in zip(rows, lines):
        import re
        cig = re.findall(r"(\d+)([MIDNSHP=X])", f[5]) if f[5] != "*" else []
        exp = {"name": f[0], "flag": int(f[1]), "position": int(f[3]) - 1, "mapq": int(f[4]), "cigar_op": "".join(o for n, o in cig),
               "cigar_length": [int(n) for n, o in cig], "sequence": f[9] if f[9] != "*" else "", "chromosome": f[2]}
        for key, want in exp.items():
            if got[key] != want and not (key == "chromosome" and f[2] == "*"):
                stats.add_failure(Failure(f"C16:example-file:{key}", {"expected": str(want)[:80], "actual": str(got[key])[:80]}), {"example": bam}, known_open)
                return
        n_ok += 1
    stats.extra["example_bam_records_cross_checked"] = n_ok


# ---------------------------------------------------------------------------------------

@st.composite
def record(draw, n_refs, Lmax):
    name_len = draw(st.one_of(st.integers(1, 20), st.integers(1, 254), st.sampled_from([218, 219, 220, 254, 1])))
    name = draw(st.text(alphabet="abcXYZ0123456789_:/.", min_size=name_len, max_size=name_len))
    ops = st.tuples(st.sampled_from("MIDNSHP=X"), st.one_of(st.integers(1, 300), st.integers(1, 2 ** 28 - 1)))
    cigar = draw(st.one_of(st.just([]), st.lists(ops, min_size=1, max_size=4),
                           st.permutations(list("MIDNSHP=X")).map(lambda p: [(o, 1 + i) for i, o in enumerate(p)])))
    L = draw(st.one_of(st.integers(0, 6), st.integers(0, Lmax)))
    seq = draw(st.text(alphabet=bamenc.SEQ_CODE, min_size=L, max_size=L))
    # (quality 10 is the line-feed byte, the last byte of the record when it carries no tags: the reader appends a line feed only if a file does not end in one)
    qual = draw(st.one_of(st.none(), st.lists(st.one_of(st.integers(0, 93), st.just(10)), min_size=L, max_size=L)))
    ref = draw(st.integers(-1 if True else 0, n_refs - 1)) if n_refs else -1
    tags = draw(st.sampled_from(["", "", "4e4d4305", "4e4d430a", "5253 5a 6162 00".replace(" ", "")]))
    return {"ref": ref, "pos": draw(st.one_of(st.integers(0, 1000), st.integers(0, 2 ** 29))) if ref >= 0 else -1 + draw(st.integers(0, 1)),
            "name": name, "flag": draw(st.one_of(st.sampled_from([0, 16, 4, 99, 147, 2048]), st.integers(0, 4095))), "mapq": draw(st.integers(0, 255)),
            "cigar": [[o, n] for o, n in cigar], "seq": seq, "qual": qual, "tags": tags}


@st.composite
def c16_case(draw, max_records, Lmax):
    n_refs = draw(st.integers(0, 4))
    refs = [["chr1", "chr10", "chrM", "x_alt"][i] for i in range(n_refs)]
    refs = [[r, draw(st.integers(1, 2 ** 29))] for r in refs]
    recs = draw(st.lists(record(n_refs, Lmax), min_size=draw(st.sampled_from([0, 1, 2, 2])), max_size=max_records))
    case = {"refs": refs, "records": recs, "text": draw(st.sampled_from(["", "@HD\tVN:1.6\n"])), "prior_read": draw(st.integers(0, 2)) == 0}
    raw_len = len(bamenc.raw_bam([tuple(r) for r in refs], [norm(r) for r in recs], case["text"]))
    if draw(st.booleans()):
        case["cuts"] = draw(st.lists(st.integers(1, max(1, raw_len - 1)), min_size=1, max_size=4))
    if recs:
        largest = max(len(bamenc.record_bytes(norm(r))) for r in recs)
        body = sum(len(bamenc.record_bytes(norm(r))) for r in recs)
        if body <= 600:
            case["ks"] = list(range(largest, body + 2))
        else:
            case["ks"] = sorted(set(draw(st.lists(st.integers(largest, body + 2), min_size=1, max_size=4)) + [largest, largest + 1]))
        how = draw(st.sampled_from(["whole", "filtered", "reordered", None]))
        if how == "filtered":
            case["write"] = {"how": how, "bits": [int(b) for b in draw(st.lists(st.booleans(), min_size=1, max_size=6))]}
        elif how == "reordered":
            case["write"] = {"how": how, "order": draw(st.lists(st.integers(0, 40), min_size=1, max_size=8))}
        elif how:
            case["write"] = {"how": how}
    return case


def task_sampled(stats, known_open, n, seed, max_records, Lmax):
    import sys
    core.run_hypothesis(sys.modules[__name__], c16_case(max_records, Lmax), stats, known_open, max_examples=n, seed=seed)


def task_many_operations(stats, known_open):
    """Records with so many CIGAR operations that four bytes per operation no longer fit 16 bits (the operation count itself does)."""
    import sys

    def cases():
        for n_ops in (16383, 16384, 16385, 20000, 32768, 65535):
            long_rec = {"ref": 0, "pos": 7, "name": "long", "flag": 0, "mapq": 30, "cigar": [["M", 1]] * n_ops, "seq": ("ACGT" * (n_ops // 4 + 1))[:n_ops],
                        "qual": None, "tags": ""}
            short = {"ref": 0, "pos": 9, "name": "short", "flag": 16, "mapq": 1, "cigar": [["M", 3]], "seq": "GAT", "qual": [10, 20, 30], "tags": ""}
            for recs in ([long_rec, short], [short, long_rec]):
                case = {"refs": [["chr1", 2 ** 20]], "records": recs, "text": "", "prior_read": False, "write": {"how": "whole"}}
                case["ks"] = [max(len(bamenc.record_bytes(norm(r))) for r in recs)]
                yield case
    core.run_enumeration(sys.modules[__name__], cases(), stats, known_open, name="records of 16383..65535 CIGAR operations")


def tasks(tier, seed):
    out = [("task_example_files", {}), ("task_many_operations", {})]
    if tier == "quick":
        out += [("task_sampled", dict(n=60, seed=seed * 100 + j, max_records=6, Lmax=40)) for j in range(8)]
    else:
        out += [("task_sampled", dict(n=250, seed=seed * 100 + j, max_records=40, Lmax=300)) for j in range(16)]
    return out
