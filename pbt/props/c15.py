"""C15  Malformed input is reported, with the right line number, not mis-parsed."""
import gzip
import io
import itertools

from hypothesis import strategies as st

from pbt import core, formats, strategies as S
from pbt.core import Failure

ID = "C15"
RULE = ("A well-formed file from the grammars with exactly one violation injected at record position p: record not starting with its marker "
        "(two-line FASTA, FASTQ), missing '+' line (FASTQ), non-numeric text in a numeric column, a character outside the strand alphabet "
        "(including characters 32 above an alphabet member), a line with fewer / more / exactly twice the columns. Crossed with chunk size k, "
        "{lazy, eager}, {plain, gzip}. Exhaustive core: files of 2..4 small records x every p x every k in 1..size+2 x the four flag combinations. "
        "Oracle: (1) consuming every chunk and converting it to rows raises; (2) if the exception is a FormatException its line_number is the "
        "zero-based data line of the offending record's first line or of the offending line; (3) that value equals the one reported by a "
        "whole-file eager plain read of the same bytes. Non-trivial: the offending record is not in the first delivered chunk "
        "(k <= byte offset of the offending record). Distinct by whole case.")
ASSUMPTIONS = [
    "A chunk size smaller than the longest record may raise for its own reason; any exception satisfies clause (1), and clause (2)/(3) only apply to FormatException.",
    "Column-count violations need at least two records (a single line has no other line to disagree with).",
    "Extra columns are legal in SAM (tags) and VCF (samples), so more/double-column violations are not injected there.",
]
REQUIRED_CLASSES = ["offending-line-empty", "non-numeric-in-all-dot-column", "malformed-float", "sign-only", "bad-marker", "bad-plus", "non-numeric", "bad-strand", "fewer-columns", "more-columns", "double-columns",
                    "lazy", "eager", "gzip", "offender-not-in-first-chunk", "format-exception", "malformed-integer-among-signed-ones", "malformed-float-among-scientific-ones",
                    "malformed-element-of-a-list-valued-column", "malformed-value-of-a-typed-info-key"]
BOUNDS = {"quick": "core: fasta2, fastq, bed3, bed6 with 2..3 records of width 1..2, all p, all k, 4 flag combinations; every malformed-number text at every record of a three-record bedGraph, narrowPeak and BED6 file; 200 sampled files for each of 13 formats (BED12 with list-valued columns and VCF with typed INFO keys included)",
          "thorough": "core: 2..4 records widths {1,2,5}; 1200 sampled files per format"}
BUDGET_S = {"quick": 200, "thorough": 1500}

NUMERIC_COLS = {"bed3": [1, 2], "bed6": [1, 2, 4], "bdg": [1, 2], "narrowpeak": [1, 2, 9], "vcf": [1], "sam": [1, 3, 4], "gtf": [3, 4], "gff": [3, 4], "wig": [1, 2],
                "chromsizes": [1], "bed12": [1, 2, 6, 7, 9]}
# list-valued columns (comma-separated numbers) and texts with one element that is not a number
LIST_COLS = {"bed12": [10, 11]}
BAD_LIST = ["3,x,", "12a", "7,8,1x2", "x,", "5,7Q,6,", "a12,4"]
# typed INFO values of a VCF file whose header declares the key: (Number, Type) -> a well-formed and a malformed value
BAD_INFO = {("1", "Integer"): ("12", ["1x", "x", "12a"]), ("A", "Integer"): ("1,2", ["3,1x", "x,2"]), (".", "Integer"): ("5", ["x", "4,5y"]),
            ("2", "Integer"): ("1,2", ["1,y"]), ("1", "Float"): ("1.5", ["1.5x", "1..5", "abc"]), ("A", "Float"): ("1.0,2.5", ["1.0,x", "2.5.1,3"])}
STRAND_COLS = {"bed6": 5, "narrowpeak": 5, "gtf": 6, "gff": 6}
BAD_NUM = ["x", "12a", "a12", "1x2", "1P", "P", "1.5x", "7Q", "3 ", "-", "+", "1-", "--1", "1-2"]
# float-typed columns and texts that are not decimal or scientific numbers (a lone sign, two decimal points, an exponent without digits)
FLOAT_COLS = {"bdg": [3], "narrowpeak": [6, 7, 8]}
BAD_FLOAT = ["x", "1.5x", "-", "1.2.3", "1..5", "--1.0", "1.-5", "1e-", "1.0e+", "-e1", "1,5", "1.5e-x", "2ex", "3.0e+1x", "1e5x", "1ee2", "1e2e3", "eleven", "e-e"]
BAD_STRAND = ["x", "K", "M", "N", "*", "p"]
LINES_PER = {"fasta2": 2, "fastq": 4}
COLUMN_COUNT_KINDS = ("fewer-columns", "more-columns", "double-columns")


def kinds_for(fmt, nrec):
    k = []
    if fmt in ("fasta2", "fastq"):
        k.append("bad-marker")
    if fmt == "fastq":
        k.append("bad-plus")
    if fmt in NUMERIC_COLS:
        k.append("non-numeric")
    if fmt in STRAND_COLS:
        k.append("bad-strand")
    if formats.FORMATS[fmt].kind == "tsv" and nrec >= 2:
        k.append("fewer-columns")
        if fmt not in ("sam", "vcf"):
            k += ["more-columns", "double-columns"]
    return k


def malformed_bytes(case):
    """Serialize the case with its violation applied. Returns (bytes, admissible line numbers, byte offset of offending record)."""
    v = case["violation"]
    fmt = formats.FORMATS[case["fmt"]]
    e = formats.eol(case)
    out = [formats.header_bytes(case)]
    offset = None
    pos = 0
    for i, rec in enumerate(case["records"]):
        lines = formats.record_lines(case, rec)
        if i == v["pos"]:
            offset = pos
            kind = v["kind"]
            if kind == "bad-marker":
                lines[0] = "" if v.get("blank") else v.get("text", "X") + lines[0][1:]
            elif kind == "bad-plus":
                lines[2] = "" if v.get("blank") else v.get("text", "-") + lines[2][1:]
            elif kind == "non-numeric" and v.get("info_key"):
                f = lines[0].split("\t")
                items = [it for it in f[7].split(";") if it != "." and it.split("=")[0] != v["info_key"]]
                items.insert(v.get("info_at", 0) % (len(items) + 1), v["info_key"] + "=" + v["text"])
                f[7] = ";".join(items)
                lines[0] = "\t".join(f)
            elif kind in ("non-numeric", "bad-strand"):
                f = lines[0].split("\t")
                f[v["col"]] = v["text"]
                lines[0] = "\t".join(f)
            elif kind == "fewer-columns":
                f = lines[0].split("\t")
                lines[0] = "\t".join(f[:10] if case["fmt"] == "sam" else f[:-1])
            elif kind == "more-columns":
                lines[0] = lines[0] + "\t" + v.get("text", "7")
            elif kind == "double-columns":
                lines[0] = lines[0] + "\t" + lines[0]
        b = "".join(l + e for l in lines).encode("latin-1")
        out.append(b)
        pos += len(b)
    data = b"".join(out)
    eb = e.encode()
    if not case.get("final_nl", True) and data.endswith(eb) and not data.endswith(eb + eb):
        data = data[:-len(eb)]
    per = LINES_PER.get(fmt.kind, 1)
    first = v["pos"] * per
    admissible = {first, first + 2} if v["kind"] == "bad-plus" else {first}
    if v.get("all_dot_column"):
        # every other row of the column holds the placeholder '.', which is only a valid value when the whole column is '.':
        # with one other text in the column the first line that is "not a number" may be any line up to the injected one
        admissible = set(range(0, first + 1))
    if v["kind"] in COLUMN_COUNT_KINDS:
        # a disagreement in column count is between line p and its neighbour: the code reports the first line that
        # differs from the line it took the count from, which is p, or p+1 when p is the line the count was taken from
        admissible = {first, first + 1}
    return data, admissible, offset


def _consume(data, fmt, k, lazy, gz):
    """Read everything; return the exception raised (or None)."""
    from bionumpy.io.parser import NumpyFileReader
    from bionumpy.io.npdataclassreader import NpDataclassReader
    try:
        if gz:
            r = NumpyFileReader(gzip.GzipFile(fileobj=io.BytesIO(gzip.compress(data, mtime=0))), fmt.buffer)
            r.set_prepend_mode()
        else:
            r = NumpyFileReader(io.BytesIO(data), fmt.buffer)
        reader = NpDataclassReader(r, lazy=lazy)
        n = 0
        if k is None:
            n += len(formats.table_rows(reader.read()))
        else:
            for chunk in reader.read_chunks(min_chunk_size=k):
                n += len(formats.table_rows(chunk))
        return None, n
    except Exception as e:  # noqa
        return e, None


def classify(case):
    v = case["violation"]
    data, adm, offset = malformed_bytes(case)
    cl = [case["fmt"], v["kind"], "lazy" if case["lazy"] else "eager", "gzip" if case["gzip"] else "plain"]
    hdr = len(formats.header_bytes(case))
    nontrivial = case["k"] <= offset and v["pos"] > 0
    if nontrivial:
        cl.append("offender-not-in-first-chunk")
    if case.get("crlf"):
        cl.append("crlf")
    if v["pos"] == len(case["records"]) - 1:
        cl.append("offender-last")
    if v.get("all_dot_column"):
        cl.append("non-numeric-in-all-dot-column")
    if v.get("signed_neighbours"):
        cl.append("malformed-integer-among-signed-ones")
    if v.get("scientific_neighbours"):
        cl.append("malformed-float-among-scientific-ones")
    if v.get("float_column"):
        cl.append("malformed-float")
    if v.get("list_column"):
        cl.append("malformed-element-of-a-list-valued-column")
    if v.get("info_key"):
        cl.append("malformed-value-of-a-typed-info-key")
    if v.get("blank"):
        cl.append("offending-line-empty")
    if v["kind"] == "non-numeric" and v["text"] in ("-", "+"):
        cl.append("sign-only")
    if v["kind"] == "non-numeric" and v["text"] == "":
        cl.append("empty-field-in-an-integer-column")
    return nontrivial, cl


def check(case, stats=None):
    from bionumpy.io.exceptions import FormatException
    fmt = formats.FORMATS[case["fmt"]]
    v = case["violation"]
    data, admissible, offset = malformed_bytes(case)
    exc, n = _consume(data, fmt, case["k"], bool(case["lazy"]), bool(case["gzip"]))
    tag = f"{v['kind']}:{case['fmt']}"
    if v["kind"] == "non-numeric":
        t = v["text"]
        what = ("sign-only" if t in ("-", "+") else "float-two-points" if t.count(".") > 1 else "float-sign-only" if v.get("float_column") and t in ("-", "-e1")
                else "float-exponent-without-digits" if v.get("float_column") and t[-1:] in "-+e" else None)
        if what:
            tag = f"{v['kind']}:{what}"
    if exc is None:
        return [Failure(f"C15:not-reported:{tag}", {"rows_returned": n, "k": case["k"], "data": data[:300]})]
    out = []
    if isinstance(exc, FormatException):
        if stats is not None:
            stats.classes["format-exception"] += 1
        ln = exc.line_number
        if ln is None or int(ln) not in admissible:
            out.append(Failure(f"C15:line-number:{tag}", {"reported": None if ln is None else int(ln), "admissible": sorted(admissible),
                                                          "k": case["k"], "lazy": case["lazy"], "gzip": case["gzip"]}))
        ref, _ = (None, None) if (v["kind"] in COLUMN_COUNT_KINDS or v.get("all_dot_column")) else _consume(data, fmt, None, False, False)
        if isinstance(ref, FormatException) and ref.line_number is not None and ln is not None and int(ref.line_number) != int(ln):
            out.append(Failure(f"C15:line-number-varies:{tag}", {"whole_read": int(ref.line_number), "this_config": int(ln),
                                                                 "k": case["k"], "lazy": case["lazy"], "gzip": case["gzip"]}))
    else:
        if stats is not None:
            stats.raised_allowed[type(exc).__name__] += 1
    return out


# ---------------------------------------------------------------------------------------

def violations(fmt, nrec, exhaustive_texts=False):
    for kind in kinds_for(fmt, nrec):
        for p in range(nrec):
            if kind == "non-numeric":
                for col in NUMERIC_COLS[fmt][:2]:
                    for t in (BAD_NUM[:5] if exhaustive_texts else BAD_NUM[:1]):
                        yield {"kind": kind, "pos": p, "col": col, "text": t}
            elif kind == "bad-strand":
                for t in (BAD_STRAND[:3] if exhaustive_texts else BAD_STRAND[:1]):
                    yield {"kind": kind, "pos": p, "col": STRAND_COLS[fmt], "text": t}
            else:
                yield {"kind": kind, "pos": p}
                if kind in ("bad-marker", "bad-plus"):
                    yield {"kind": kind, "pos": p, "blank": True}


def core_cases(fmt, widths, max_records, stride=1, offset=0):
    n = 0
    for nrec in range(2, max_records + 1):
        for ws in itertools.product(widths, repeat=nrec):
            recs = [S.small_record(fmt, w, i) for i, w in enumerate(ws)]
            for v in violations(fmt, nrec, exhaustive_texts=True):
                for crlf, final_nl in ((False, True), (True, False)):
                    c0 = {"fmt": fmt, "records": recs, "header": S.default_header(fmt), "crlf": crlf, "final_nl": final_nl, "violation": v}
                    size = len(malformed_bytes(c0)[0])
                    for k in range(1, size + 3):
                        for gz, lazy in itertools.product((False, True), repeat=2):
                            n += 1
                            if (n + offset) % stride:
                                continue
                            yield dict(c0, k=k, gzip=gz, lazy=lazy)


def bad_text_cases():
    """Every text of the malformed-number lists at every record of a three-record file, for the float columns of bedGraph and narrowPeak and the
    integer columns of BED6: whole-file and small-chunk reads, lazy and eager."""
    for fmt, cols, texts, is_float in (("bdg", FLOAT_COLS["bdg"], BAD_FLOAT, True), ("narrowpeak", FLOAT_COLS["narrowpeak"][:2], BAD_FLOAT, True),
                                        ("bed6", [1, 4], BAD_NUM, False)):
        recs = [S.small_record(fmt, w, i) for i, w in enumerate((1, 2, 1))]
        for col in cols:
            for t in texts:
                for p in range(3):
                    v = {"kind": "non-numeric", "pos": p, "col": col, "text": t}
                    if is_float:
                        v["float_column"] = True
                    c0 = {"fmt": fmt, "records": [list(r) for r in recs], "header": S.default_header(fmt), "crlf": False, "final_nl": True, "violation": v}
                    if fmt == "bed6":
                        for r in c0["records"]:
                            if r[4] == ".":
                                r[4] = "0"
                    data, adm, offset = malformed_bytes(c0)
                    for k in sorted({len(data) + 2, max(1, offset + 1)}):
                        for lazy in (False, True):
                            yield dict(c0, k=k, gzip=False, lazy=lazy)


def task_bad_texts(stats, known_open):
    import sys
    core.run_enumeration(sys.modules[__name__], bad_text_cases(), stats, known_open, name="every-malformed-number-text")


def task_core(stats, known_open, fmt, widths, max_records, stride=1, offset=0):
    import sys
    core.run_enumeration(sys.modules[__name__], core_cases(fmt, widths, max_records, stride, offset), stats, known_open,
                         name=f"core:{fmt}:widths={widths}:n<={max_records}:stride={stride}")


@st.composite
def typed_info_case(draw, max_records):
    """A VCF file whose header declares typed INFO keys, with a malformed value for a numeric key in one record."""
    number, typ = draw(st.sampled_from(sorted(BAD_INFO)))
    key = draw(st.sampled_from(["DP", "AF", "AN"]))
    others = [[i] + list(draw(st.sampled_from(S._INFO_KINDS))) for i in draw(st.lists(st.sampled_from(["DB", "NS", "STR", "H2"]), max_size=3, unique=True))]
    decl = others[:1] + [[key, number, typ]] + others[1:]
    case = draw(S.vcf_case("vcf", max_records, decl=decl))
    while len(case["records"]) < 2:
        case["records"].append(list(case["records"][0]))
    nrec = len(case["records"])
    good, bads = BAD_INFO[(number, typ)]
    v = {"kind": "non-numeric", "pos": draw(st.one_of(st.integers(0, nrec - 1), st.just(nrec - 1))), "col": 7, "info_key": key,
         "text": draw(st.sampled_from(bads)), "info_at": draw(st.integers(0, 3))}
    case["violation"] = v
    data, adm, offset = malformed_bytes(case)
    size = len(data)
    ks = sorted({x for x in (offset - 1, offset, offset + 1, size, size + 1, size // 2, size // 3, 40, 80) if 1 <= x <= size + 2})
    case.update(k=max(draw(st.one_of(st.sampled_from(ks), st.integers(1, size + 2))), size // 40), gzip=draw(st.booleans()), lazy=draw(st.booleans()))
    return case


@st.composite
def sampled_case(draw, fmt, max_records, W):
    if fmt == "vcf-typed":
        return draw(typed_info_case(max_records))
    case = draw(S.file_case(fmt, min_records=2, max_records=max_records, W=W, canonical=True))
    nrec = len(case["records"])
    kind = draw(st.sampled_from(kinds_for(fmt, nrec)))
    all_dot = fmt in ("bed6", "narrowpeak") and draw(st.integers(0, 4)) == 0
    if all_dot:
        kind = "non-numeric"
    p = draw(st.one_of(st.integers(0, nrec - 1), st.just(nrec - 1)))
    v = {"kind": kind, "pos": p}
    if kind == "non-numeric":
        v.update(col=4 if all_dot else draw(st.sampled_from(NUMERIC_COLS[fmt])), text=draw(st.sampled_from(BAD_NUM)))
        if not all_dot and not (fmt in ("bed6", "narrowpeak") and v["col"] == 4) and draw(st.integers(0, 7)) == 0:
            v["text"] = ""          # nothing at all where an integer belongs (an optional column takes that for 'missing', so not there)
        if fmt in FLOAT_COLS and not all_dot and draw(st.booleans()):
            v.update(col=draw(st.sampled_from(FLOAT_COLS[fmt])), text=draw(st.sampled_from(BAD_FLOAT)), float_column=True)
            if draw(st.booleans()):
                # the values around the offending one in scientific notation (the column is then parsed in two groups, decimal and scientific)
                for r in case["records"]:
                    if draw(st.integers(0, 2)):
                        r[v["col"]] = draw(st.sampled_from(["1e-5", "2.5e3", "1.0e+2", "7e0", "-3.25e-2"]))
                v["scientific_neighbours"] = True
        if fmt in LIST_COLS and draw(st.booleans()):
            v.update(col=draw(st.sampled_from(LIST_COLS[fmt])), text=draw(st.sampled_from(BAD_LIST)), list_column=True)
            v.pop("float_column", None)
    elif kind == "bad-strand":
        v.update(col=STRAND_COLS[fmt], text=draw(st.sampled_from(BAD_STRAND)))
    elif kind == "bad-marker":
        v["text"] = draw(st.sampled_from(["X", "+", " ", "^", "<"]))
        v["blank"] = draw(st.integers(0, 3)) == 0          # the whole header line is empty
    elif kind == "bad-plus":
        v["text"] = draw(st.sampled_from(["-", "K", "@", "A"]))
        v["blank"] = draw(st.integers(0, 3)) == 0          # the separator line is empty
    if fmt in ("bed6", "narrowpeak") and kind == "non-numeric" and v["col"] == 4:
        if all_dot:
            # the score column is the placeholder '.' in every row (a legal file) except for the injected text, which has no digit
            for r in case["records"]:
                r[4] = "."
            v["text"] = draw(st.sampled_from(["x", "NA", "-", "abc", "+", ".."]))
            v["all_dot_column"] = True
        else:
            # keep the violation unambiguous: the other rows hold numbers
            for r in case["records"]:
                if r[4] == ".":
                    r[4] = "0"
            if draw(st.booleans()):
                # signed scores in the rows around the offending one (the column is then parsed by the signed route)
                for r in case["records"]:
                    r[4] = draw(st.sampled_from(["-4", "+3", "-12", "7", "+100", "-1", "0"]))
                v["signed_neighbours"] = True
    case["violation"] = v
    data, adm, offset = malformed_bytes(case)
    size = len(data)
    ks = sorted({x for x in (offset - 1, offset, offset + 1, size, size + 1, size // 2, size // 3, 1, 2) if 1 <= x <= size + 2})
    # (chunk sizes far below the file size cost quadratic time without showing anything new; the exhaustive core has every size on small files)
    case.update(k=max(draw(st.one_of(st.sampled_from(ks), st.integers(1, size + 2))), size // 40), gzip=draw(st.booleans()), lazy=draw(st.booleans()))
    return case


def task_sampled(stats, known_open, fmt, n, seed, max_records, W):
    import sys
    core.run_hypothesis(sys.modules[__name__], sampled_case(fmt, max_records, W), stats, known_open, max_examples=n, seed=seed)


CORE_FMTS = ["fasta2", "fastq", "bed3", "bed6"]
SAMPLED_FMTS = ["fasta2", "fastq", "bed3", "bed6", "bdg", "narrowpeak", "vcf", "sam", "gtf", "gff", "wig", "bed12", "vcf-typed"]


def tasks(tier, seed):
    out = [("task_bad_texts", {})]
    if tier == "quick":
        # (sampled files first: they must not be the part a time budget cuts off)
        for i, fmt in enumerate(SAMPLED_FMTS):
            out.append(("task_sampled", dict(fmt=fmt, n=200, seed=seed * 1000 + i, max_records=12, W=12)))
        for fmt in CORE_FMTS:
            for off in range(4):
                out.append(("task_core", dict(fmt=fmt, widths=[1, 2], max_records=3, stride=8, offset=off)))
    else:
        for fmt in CORE_FMTS:
            for off in range(16):
                out.append(("task_core", dict(fmt=fmt, widths=[1, 2, 5], max_records=4, stride=16, offset=off)))
        for i, fmt in enumerate(SAMPLED_FMTS):
            for j in range(2):
                out.append(("task_sampled", dict(fmt=fmt, n=600, seed=seed * 1000 + i * 10 + j, max_records=40, W=30)))
    return out
