"""C11  Streamed evaluation equals in-memory evaluation for every chunking."""
import itertools
import os
import traceback
from collections import Counter

from hypothesis import strategies as st

from pbt import core
from pbt.core import Failure
from pbt.props import c08

ID = "C11"
RULE = ("A dataset of n sorted entries on a genome of 1..4 chromosomes and a set of cut positions that splits it into consecutive chunks: every one "
        "of the 2^(n-1) chunkings for n <= N (exhaustive), sampled cut sets for n up to 200. Computations: bnp.mean, bnp.bincount, bnp.histogram "
        "(explicit edges, or bin count with explicit range), count_kmers, groupby on the sorted chromosome key (as an identifier column and as a text-typed ragged column, where keys such as chr1/chr10 are prefixes of each other), chunk_entries(stream, m) and chunk_lines(chunks, m), and "
        "per-chromosome pipelines built from the stream with Genome.get_intervals and evaluated with bnp.compute: pileup records, mask sum, "
        "pileup histogram, pileup sum, the column mean of the pileup under equal-length windows, and the same reductions evaluated together by one "
        "bnp.compute call on a tuple or dict of nodes (every subset of mean, sum, histogram); and the element-wise @streamable functions "
        "get_strand_specific_sequences and get_sequences applied to a stream of stranded intervals; and one collection of 1.15 million 3-mers counted "
        "whole and in three chunkings (the counting works in blocks of a million values). Oracle: the same computation on the "
        "concatenated table through the in-memory path and an independent Python computation; floats within 1e-9 relative; values compared "
        "after flattening. Re-chunking: concatenated output == input in order and every chunk except the last has exactly m entries. "
        "Non-trivial: a chunking with a cut strictly inside a chromosome group, or a single-entry chunk, or a short last chunk.")
ASSUMPTIONS = [
    "bnp.histogram with an integer bin count is only used with an explicit range (without one the edges come from the first chunk).",
    "Column means over values under intervals use equal-length windows only (ragged rows have no common column count).",
    "Entries of one chromosome are contiguous and chromosomes appear in genome order (the streaming precondition; C12 covers its violation).",
]
REQUIRED_CLASSES = ["cut-inside-group", "single-entry-chunk", "short-last-chunk", "one-chunk", "empty-chromosome", "trailing-empty-chromosome",
                    "mean", "bincount", "histogram", "count_kmers", "groupby", "groupby-str", "chunk_entries", "pileup", "mask-sum", "pileup-histogram", "window-mean", "joint", "streamable-map", "more-than-a-million-kmers",
                    "windows-in-memory-not-sorted-by-start", "stranded-windows"]
BOUNDS = {"quick": "all 128 chunkings of n = 8 entries x 15 computations x 10 datasets; 1000 sampled", "thorough": "all 512 chunkings for n = 10 on 12 datasets and all 2048 for n = 12 on 4 datasets; 19200 sampled (n up to 300)"}
BUDGET_S = {"quick": 200, "thorough": 1500}

COMPS = ["mean", "bincount", "histogram", "histogram-range", "count_kmers", "groupby", "groupby-str", "chunk_entries", "pileup", "mask-sum", "pileup-histogram",
         "pileup-sum", "window-mean", "joint", "streamable-map"]


def _where(e):
    tb = traceback.extract_tb(e.__traceback__)
    return next((f"{os.path.basename(fr.filename)}:{fr.name}" for fr in reversed(tb) if "/bionumpy/" in fr.filename), "?")


def chunks_of(table, cuts):
    pts = [0] + sorted(set(c for c in cuts if 0 < c < len(table))) + [len(table)]
    return [table[a:b] for a, b in zip(pts[:-1], pts[1:])]


def classify(case):
    if case["comp"] == "big-count":
        return True, ["count_kmers", "more-than-a-million-kmers"] + (["one-chunk"] if not case["cuts"] else [])
    ents = case["entries"]
    n = len(ents)
    cuts = sorted(set(c for c in case["cuts"] if 0 < c < n))
    cl = [case["comp"] if case["comp"] not in ("histogram-range",) else "histogram"]
    cl = [{"pileup-sum": "pileup"}.get(c, c) for c in cl]
    pts = [0] + cuts + [n]
    sizes = [b - a for a, b in zip(pts[:-1], pts[1:])]
    if not cuts:
        cl.append("one-chunk")
    inside = any(0 < c < n and ents[c - 1][0] == ents[c][0] for c in cuts)
    if inside:
        cl.append("cut-inside-group")
    if any(s == 1 for s in sizes) and n > 1:
        cl.append("single-entry-chunk")
    if len(sizes) > 1 and sizes[-1] < max(sizes):
        cl.append("short-last-chunk")
    present = {e[0] for e in ents}
    names = list(range(len(case["genome"])))
    if any(i not in present for i in names):
        cl.append("empty-chromosome")
    if names and names[-1] not in present:
        cl.append("trailing-empty-chromosome")
    if case.get("unsorted_windows"):
        cl.append("windows-in-memory-not-sorted-by-start")
    if case.get("wstrands"):
        cl.append("stranded-windows")
    return inside or ("single-entry-chunk" in cl) or ("short-last-chunk" in cl), cl


def check_big_count(case):
    """The in-memory call on the whole collection (no cuts) or the streamed call over the chunks must equal a plain NumPy count."""
    import numpy as np
    import bionumpy as bnp
    from bionumpy.sequence import count_kmers
    lengths, k, cuts = case["lengths"], case["k"], case["cuts"]
    codes = [((np.arange(L, dtype=np.int64) * 2654435761 + 97 * j) >> 9) % 4 for j, L in enumerate(lengths)]
    rows = ["".join("ACGT"[c] for c in row.tolist()) for row in codes]
    want = np.zeros(4 ** k, dtype=np.int64)
    for row in codes:
        if len(row) >= k:
            want += np.bincount(sum((4 ** i) * row[i:len(row) - k + 1 + i] for i in range(k)), minlength=4 ** k)
    labels = ["".join("ACGT"[(c >> (2 * i)) & 3] for i in range(k)) for c in range(4 ** k)]
    want_d = {lab: int(v) for lab, v in zip(labels, want) if v}
    pts = [0] + list(cuts) + [len(rows)]
    chunks = [bnp.as_encoded_array(rows[a:b], bnp.DNAEncoding) for a, b in zip(pts[:-1], pts[1:])]
    try:
        res = count_kmers(chunks[0], k) if len(chunks) == 1 else count_kmers(bnp.streams.BnpStream(iter(chunks)), k)
        got = {lab: int(c) for lab, c in zip(res.alphabet, np.asarray(res.counts).tolist()) if int(c)}
    except Exception as e:
        return [Failure(f"C11:raised:big-count:{type(e).__name__}:{_where(e)}", {"error": repr(e)[:300], "cuts": cuts})]
    if got != want_d:
        return [Failure("C11:count_kmers-over-a-million", {"cuts": cuts, "expected_total": int(want.sum()), "actual_total": sum(got.values())})]
    return []


def check(case, stats=None):
    if case["comp"] == "big-count":
        return check_big_count(case)
    import numpy as np
    import bionumpy as bnp
    from bionumpy.datatypes import Interval, SequenceEntry
    from bionumpy.streams import NpDataclassStream
    from bionumpy.streams.chunk_entries import chunk_entries
    from bionumpy.sequence import count_kmers
    genome_list = case["genome"]
    names = [n for n, _ in genome_list]
    sizes = dict(genome_list)
    ents = case["entries"]
    comp = case["comp"]
    rows = [(names[c], a, b) for c, a, b in ents]
    table = Interval([r[0] for r in rows], np.array([r[1] for r in rows], dtype=int), np.array([r[2] for r in rows], dtype=int))

    def stream():
        return NpDataclassStream(iter(chunks_of(table, case["cuts"])), dataclass=Interval)

    def close(a, b):
        a, b = np.asarray(a, dtype=float).ravel(), np.asarray(b, dtype=float).ravel()
        return a.shape == b.shape and np.allclose(a, b, rtol=1e-9, atol=1e-12, equal_nan=True)

    try:
        if comp == "mean":
            got = bnp.mean(stream().start)
            mem = np.mean(table.start)
            want = sum(r[1] for r in rows) / len(rows)
            if not close(got, want) or not close(mem, want):
                return [Failure("C11:mean", {"streamed": np.asarray(got).tolist(), "expected": want})]
        elif comp == "bincount":
            got = bnp.bincount(stream().start)
            want = np.bincount(table.start)
            if np.asarray(got).tolist() != want.tolist():
                return [Failure("C11:bincount", {"streamed": np.asarray(got).tolist(), "expected": want.tolist()})]
        elif comp in ("histogram", "histogram-range"):
            kw = {"bins": case["edges"]} if comp == "histogram" else {"bins": case["nbins"], "range": tuple(case["range"])}
            got = bnp.histogram(stream().stop, **kw)
            want = np.histogram(table.stop, **kw)
            if np.asarray(got[0]).tolist() != want[0].tolist() or not close(got[1], want[1]):
                return [Failure("C11:histogram", {"streamed": np.asarray(got[0]).tolist(), "expected": want[0].tolist(), "kw": kw})]
        elif comp == "count_kmers":
            k = case["k"]
            seqs = ["".join("ACGT"[(a * 7 + b * 3 + i) % 4] for i in range(3 + (a + b) % 6)) for c, a, b in ents]
            st_tab = SequenceEntry(["s%d" % i for i in range(len(seqs))], seqs)
            chunks = chunks_of(st_tab, case["cuts"])
            enc = [bnp.as_encoded_array(c.sequence.tolist(), bnp.DNAEncoding) for c in chunks]
            got = count_kmers(bnp.streams.BnpStream(iter(enc)), k)
            want = Counter(s[i:i + k] for s in seqs for i in range(len(s) - k + 1))
            gotd = {lab: int(c) for lab, c in zip(got.alphabet, np.asarray(got.counts).tolist()) if int(c)}
            if gotd != dict(want):
                return [Failure("C11:count_kmers", {"streamed": gotd, "expected": dict(want)})]
            # counted per sequence (axis=-1): one row of counts for every sequence of every chunk, in order
            enc = [bnp.as_encoded_array(c.sequence.tolist(), bnp.DNAEncoding) for c in chunks]
            per_row = count_kmers(bnp.streams.BnpStream(iter(enc)), k, axis=-1)
            mat = np.asarray(per_row.counts)
            got_rows = [{lab: int(c) for lab, c in zip(per_row.alphabet, row) if int(c)} for row in mat.tolist()] if mat.ndim == 2 else None
            want_rows = [dict(Counter(s[i:i + k] for i in range(len(s) - k + 1))) for s in seqs]
            if got_rows != want_rows:
                return [Failure("C11:count_kmers-per-sequence", {"k": k, "streamed_shape": list(mat.shape), "expected_rows": len(want_rows),
                                                                "streamed": (got_rows or [])[:4], "expected": want_rows[:4]})]
        elif comp == "groupby":
            got = [(name, list(zip(g.start.tolist(), g.stop.tolist()))) for name, g in bnp.groupby(stream(), "chromosome")]
            want = [(k_, [(a, b) for _, a, b in grp]) for k_, grp in itertools.groupby(rows, key=lambda r: r[0])]
            mem = [(name, list(zip(g.start.tolist(), g.stop.tolist()))) for name, g in bnp.groupby(table, "chromosome")]
            if got != want or mem != want:
                return [Failure("C11:groupby", {"streamed": got, "expected": want, "in_memory": mem})]
        elif comp == "streamable-map":
            # element-wise @streamable functions applied to a stream: the concatenated per-chunk outputs must equal the in-memory call
            from bionumpy.datatypes import StrandedInterval
            L = max(b for _, _, b in ents)
            ref_text = "".join("ACGT"[((i * 2654435761) >> 7) % 4] for i in range(L + 2))     # fixed scrambled reference
            ref = bnp.as_encoded_array(ref_text, bnp.DNAEncoding)
            strands = ["+-"[((a * 7 + b * 3 + i) // 2 + case.get("strand_salt", 0)) % 2] for i, (c, a, b) in enumerate(ents)]
            st_tab = StrandedInterval([names[c] for c, a, b in ents], np.array([a for c, a, b in ents], dtype=int),
                                      np.array([b for c, a, b in ents], dtype=int), "".join(strands))
            comp_map = {"A": "T", "C": "G", "G": "C", "T": "A"}
            want = [ref_text[a:b] if z == "+" else "".join(comp_map[ch] for ch in reversed(ref_text[a:b])) for (c, a, b), z in zip(ents, strands)]
            for fn_name, fn, expected in (("get_strand_specific_sequences", bnp.sequence.get_strand_specific_sequences, want),
                                          ("get_sequences", bnp.sequence.get_sequences, [ref_text[a:b] for c, a, b in ents])):
                streamed = fn(ref, NpDataclassStream(iter(chunks_of(st_tab, case["cuts"])), dataclass=StrandedInterval))
                got = [row for chunk in streamed for row in chunk.tolist()]
                mem = fn(ref, st_tab).tolist()
                if got != expected or mem != expected:
                    return [Failure(f"C11:streamable:{fn_name}", {"streamed": got[:12], "in_memory": mem[:12], "expected": expected[:12], "strands": "".join(strands)[:40],
                                                               "cuts": case["cuts"][:10]})]
        elif comp == "groupby-str":
            # the same group-by on a text-typed (ragged) key column; chunks are built fresh from lists, as a file reader hands them out
            from bionumpy.bnpdataclass import bnpdataclass

            @bnpdataclass
            class KeyValue:
                key: str
                value: int
            keys = [r[0] + case.get("key_suffix", "") for r in rows]
            vals = [r[1] * 100 + r[2] for r in rows]
            pts = [0] + sorted(set(c for c in case["cuts"] if 0 < c < len(rows))) + [len(rows)]
            kv_chunks = [KeyValue(keys[a:b], np.array(vals[a:b], dtype=int)) for a, b in zip(pts[:-1], pts[1:])]
            got = [(str(name), g.value.tolist()) for name, g in bnp.groupby(NpDataclassStream(iter(kv_chunks), dataclass=KeyValue), "key")]
            want = [(k_, [v for _, v in grp]) for k_, grp in itertools.groupby(zip(keys, vals), key=lambda r: r[0])]
            mem = [(str(name), g.value.tolist()) for name, g in bnp.groupby(KeyValue(keys, np.array(vals, dtype=int)), "key")]
            if got != want or mem != want:
                return [Failure("C11:groupby-text-key", {"streamed": got, "expected": want, "in_memory": mem})]
        elif comp == "chunk_entries":
            m = case["m"]
            out = list(chunk_entries(stream(), m))
            sizes_out = [len(c) for c in out]
            flat = [(c, a, b) for ch in out for c, a, b in zip(ch.chromosome.tolist(), ch.start.tolist(), ch.stop.tolist())]
            if flat != rows:
                return [Failure("C11:chunk_entries-content", {"expected": rows, "actual": flat, "m": m})]
            if any(s != m for s in sizes_out[:-1]) or (sizes_out and not (0 <= sizes_out[-1] <= m)):
                return [Failure("C11:chunk_entries-sizes", {"m": m, "sizes": sizes_out, "input_chunk_sizes": [len(c) for c in chunks_of(table, case["cuts"])]})]
            # the line-count helper of the file reader does the same job on a plain iterator of chunks
            from bionumpy.io.parser import chunk_lines
            pieces = chunks_of(table, case["cuts"])
            if pieces and len(table):
                out = list(chunk_lines(iter(pieces), m))
                sizes_out = [len(c) for c in out]
                flat = [(c, a, b) for ch in out for c, a, b in zip(ch.chromosome.tolist(), ch.start.tolist(), ch.stop.tolist())]
                if flat != rows:
                    return [Failure("C11:chunk_lines-content", {"expected": rows, "actual": flat, "m": m})]
                if any(s != m for s in sizes_out[:-1]) or (sizes_out and not (0 <= sizes_out[-1] <= m)):
                    return [Failure("C11:chunk_lines-sizes", {"m": m, "sizes": sizes_out, "input_chunk_sizes": [len(c) for c in pieces]})]
        else:
            genome = bnp.Genome.from_dict(sizes)
            per = {n: [(a, b) for c, a, b in rows if c == n] for n in names}
            dense = {n: c08.cover(per[n], sizes[n]) for n in names}
            flat_dense = [v for n in names for v in dense[n]]
            gi = genome.get_intervals(stream())
            if comp == "pileup":
                data = bnp.compute(gi.get_pileup().get_data())
                recs = list(zip(data.chromosome.tolist(), data.start.tolist(), data.stop.tolist(), np.asarray(data.value).tolist()))
                for n in names:
                    a = [0] * sizes[n]
                    for _, s, e, v in [r for r in recs if r[0] == n]:
                        for p in range(s, e):
                            a[p] = v
                    if a != dense[n]:
                        return [Failure("C11:pileup", {"chromosome": n, "expected": dense[n], "records": [r for r in recs if r[0] == n]})]
                if [r[0] for r in recs] != sorted([r[0] for r in recs], key=names.index):
                    return [Failure("C11:pileup-order", {"records": recs[:20]})]
            elif comp == "mask-sum":
                got = bnp.compute(gi.get_mask().sum())
                want = sum(1 for v in flat_dense if v > 0)
                if int(got) != want:
                    return [Failure("C11:mask-sum", {"streamed": int(got), "expected": want})]
                # a column of the streamed interval set asked for by name, evaluated: that column of all entries
                for fname, want_col in (("start", [a for _, a, _ in rows]), ("stop", [b for _, _, b in rows])):
                    got_col = np.asarray(bnp.compute(genome.get_intervals(stream()).get_data_field(fname))).tolist()
                    if got_col != want_col:
                        return [Failure("C11:column-by-name", {"field": fname, "streamed": got_col[:20], "expected": want_col[:20]})]
            elif comp == "pileup-sum":
                got = bnp.compute(gi.get_pileup().sum())
                if int(got) != sum(flat_dense):
                    return [Failure("C11:pileup-sum", {"streamed": int(got), "expected": sum(flat_dense)})]
            elif comp == "pileup-histogram":
                edges = case["edges"]
                got = bnp.compute(np.histogram(gi.get_pileup(), bins=edges))
                want = np.histogram(np.array(flat_dense), bins=edges)
                if np.asarray(got[0]).tolist() != want[0].tolist():
                    return [Failure("C11:pileup-histogram", {"streamed": np.asarray(got[0]).tolist(), "expected": want[0].tolist(), "edges": edges})]
            elif comp == "joint":
                # several reductions of one streamed pipeline evaluated by a single bnp.compute call (tuple or dict of nodes)
                w = case["w"]
                edges = case["edges"]
                wins = [(n, s) for n in names for s in range(0, sizes[n] - w + 1, max(1, w))][:12]
                if not wins:
                    return []
                wt = Interval([x[0] for x in wins], np.array([x[1] for x in wins], dtype=int), np.array([x[1] + w for x in wins], dtype=int))
                gw = genome.get_intervals(NpDataclassStream(iter([wt]), dataclass=Interval))
                d_ = case.get("d", 0)
                merged_node = gi.merged(d_).get_mask().sum() if "merged" in case["parts"] else None     # built (and listed) before the others
                pile = gi.get_pileup()
                nodes = {"merged": merged_node, "mean": pile[gw].mean(axis=0), "sum": pile.sum(), "hist": np.histogram(pile, bins=edges)}
                which = [k_ for k_ in ("merged", "mean", "sum", "hist") if k_ in case["parts"]]
                if case.get("as_dict"):
                    res = bnp.compute({k_: nodes[k_] for k_ in which})
                else:
                    res = dict(zip(which, bnp.compute(tuple(nodes[k_] for k_ in which))))
                want_mean = [sum(dense[n][s + j] for n, s in wins) / len(wins) for j in range(w)]
                want_hist = np.histogram(np.array(flat_dense), bins=edges)[0].tolist()
                if "mean" in res:
                    ok = False
                    try:
                        ok = close(res["mean"], want_mean)
                    except Exception:
                        pass
                    if not ok:
                        return [Failure("C11:joint-compute:mean", {"streamed": repr(res["mean"])[:300], "expected": want_mean, "parts": which})]
                if "merged" in res:
                    want_m = sum(b - a for n in names for a, b in c08.merged_model(per[n], sizes[n], d_))
                    if int(np.asarray(res["merged"])) != want_m:
                        return [Failure("C11:joint-compute:merged-mask-sum", {"streamed": repr(res["merged"])[:200], "expected": want_m, "distance": d_, "parts": which})]
                if "sum" in res and int(np.asarray(res["sum"])) != sum(flat_dense):
                    return [Failure("C11:joint-compute:sum", {"streamed": repr(res["sum"])[:200], "expected": sum(flat_dense), "parts": which})]
                if "hist" in res and np.asarray(res["hist"][0]).tolist() != want_hist:
                    return [Failure("C11:joint-compute:histogram", {"streamed": repr(res["hist"])[:200], "expected": want_hist, "parts": which})]
            elif comp == "window-mean":
                w = case["w"]
                wins = [(n, s) for n in names for s in range(0, sizes[n] - w + 1, max(1, w))][:12]
                if not wins:
                    return []
                wt = Interval([x[0] for x in wins], np.array([x[1] for x in wins], dtype=int), np.array([x[1] + w for x in wins], dtype=int))
                gw = genome.get_intervals(NpDataclassStream(iter([wt]), dataclass=Interval))
                got = bnp.compute(gi.get_pileup()[gw].mean(axis=0))
                want = [sum(dense[n][s + j] for n, s in wins) / len(wins) for j in range(w)]
                if not close(got, want):
                    return [Failure("C11:window-mean", {"streamed": np.asarray(got).tolist(), "expected": want, "windows": wins})]
                # one sum per window (along the rows): the sums of all windows in order, not the sums of the chromosomes added together
                for how, mk in (("np.sum", lambda x: np.sum(x, axis=-1)), (".sum", lambda x: x.sum(axis=-1))):
                    gw2 = genome.get_intervals(NpDataclassStream(iter([wt]), dataclass=Interval))
                    got_s = np.asarray(bnp.compute(mk(genome.get_intervals(stream()).get_pileup()[gw2]))).tolist()
                    want_s = [sum(dense[n][s + j] for j in range(w)) for n, s in wins]
                    if got_s != want_s:
                        return [Failure("C11:window-sums", {"how": how, "streamed": got_s, "expected": want_s, "windows": wins})]
                if case.get("ragged_windows") and len(names) >= 2:
                    # windows whose length differs from chromosome to chromosome (w on the first, w+1 on the second, ...): the column mean through the
                    # streamed pipeline is the in-memory one, or the streamed evaluation refuses (it does, today, when the longest lengths differ)
                    rw = [(n, s, min(sizes[n], s + w + names.index(n))) for n in names for s in range(0, max(1, sizes[n] - w), max(1, w))][:12]
                    rw = [x for x in rw if x[2] > x[1]]
                    if rw:
                        rwt = Interval([x[0] for x in rw], np.array([x[1] for x in rw], dtype=int), np.array([x[2] for x in rw], dtype=int))
                        try:
                            mem = np.asarray(genome.get_intervals(table).get_pileup()[genome.get_intervals(rwt)].mean(axis=0), dtype=float)
                        except Exception:
                            mem = None
                        if mem is not None:
                            try:
                                got_r = np.asarray(bnp.compute(genome.get_intervals(stream()).get_pileup()[genome.get_intervals(NpDataclassStream(iter([rwt]), dataclass=Interval))].mean(axis=0)), dtype=float)
                            except Exception as e_:
                                got_r = None
                                if stats is not None:
                                    stats.tolerant["streamed-mean-under-unequal-windows-refused:" + type(e_).__name__] += 1
                            if got_r is not None and (got_r.shape != mem.shape or not np.allclose(got_r, mem, rtol=1e-9, atol=1e-12)):
                                return [Failure("C11:window-mean:unequal-windows", {"streamed": got_r.tolist(), "in_memory": mem.tolist(), "windows": rw})]
                if case.get("unsorted_windows"):
                    # windows held in memory (not streamed), grouped by chromosome in genome order but not sorted by start within a chromosome:
                    # the rows extracted from the streamed track are the rows of the in-memory track, window for window in the order given
                    rot = case["unsorted_windows"]
                    uw = []
                    for n in names:
                        mine = [x for x in wins if x[0] == n]
                        if mine:
                            r_ = rot % len(mine)
                            mine = (mine[r_:] + mine[:r_])[::-1] if rot % 2 else mine[r_:] + mine[:r_]
                        uw.extend(mine)
                    uwt = Interval([x[0] for x in uw], np.array([x[1] for x in uw], dtype=int), np.array([x[1] + w for x in uw], dtype=int))

                    def rows_u(x):
                        return [np.asarray(r.to_array() if hasattr(r, "to_array") else r).tolist() for r in x]
                    got_u = rows_u(bnp.compute(genome.get_intervals(stream()).get_pileup()[genome.get_intervals(uwt)]))
                    want_u = [[dense[n][s_ + j] for j in range(w)] for n, s_ in uw]
                    if got_u != want_u:
                        return [Failure("C11:window-rows:windows-in-given-order", {"windows": uw, "streamed": got_u, "expected": want_u})]
                if case.get("wstrands"):
                    # the values under stranded windows (strands '+', '-' and the undetermined '.'): streamed rows == in-memory rows, and for
                    # '+' / '-' rows also the dense values (reversed on '-')
                    from bionumpy.datatypes import StrandedInterval
                    ws = case["wstrands"]
                    strands = "".join(ws[i_ % len(ws)] for i_ in range(len(wins)))
                    swt = StrandedInterval([x[0] for x in wins], np.array([x[1] for x in wins], dtype=int), np.array([x[1] + w for x in wins], dtype=int), strands)

                    def rows_of(x):
                        return [np.asarray(r.to_array() if hasattr(r, "to_array") else r).tolist() for r in x]
                    # the streamed stranded windows, evaluated: the same windows, still stranded, with the same strands
                    evaluated = bnp.compute(genome.get_intervals(NpDataclassStream(iter([swt[:1], swt[1:]] if len(wins) > 1 else [swt]), dataclass=StrandedInterval), stranded=True))
                    ev_strands = evaluated.strand.ravel().to_string() if evaluated.is_stranded() else None
                    if ev_strands != strands or evaluated.start.tolist() != [x[1] for x in wins]:
                        return [Failure("C11:stranded-intervals-evaluated", {"stranded": bool(evaluated.is_stranded()), "strands": ev_strands, "expected": strands,
                                                                            "starts": evaluated.start.tolist()})]
                    sgw = genome.get_intervals(NpDataclassStream(iter([swt]), dataclass=StrandedInterval), stranded=True)
                    got_rows = rows_of(bnp.compute(genome.get_intervals(stream()).get_pileup()[sgw]))      # (a stream is read once: a fresh one)
                    mem_pile = genome.get_intervals(table).get_pileup()
                    mem_rows = rows_of(mem_pile[genome.get_intervals(swt, stranded=True)])
                    model_rows = [[dense[n][s + j] for j in range(w)][::-1 if z == "-" else 1] for (n, s), z in zip(wins, strands)]
                    for i_, z in enumerate(strands):
                        if z in "+-" and (mem_rows[i_] != model_rows[i_]):
                            return [Failure("C11:stranded-window-rows:in-memory-differs-from-dense", {"row": i_, "strand": z, "in_memory": mem_rows[i_], "expected": model_rows[i_]})]
                    if got_rows != mem_rows:
                        bad = next((i_ for i_, (a_, b_) in enumerate(zip(got_rows, mem_rows)) if a_ != b_), None)
                        return [Failure("C11:stranded-window-rows", {"row": bad, "strands": strands, "streamed": got_rows[bad] if bad is not None else got_rows,
                                                                      "in_memory": mem_rows[bad] if bad is not None else mem_rows})]
    except Exception as e:  # noqa
        return [Failure(f"C11:raised:{comp}:{type(e).__name__}:{_where(e)}", {"error": repr(e)[:300] + " / " + repr(e.__cause__)[:200]})]
    return []


# ---------------------------------------------------------------------------------------

def dataset(i, n):
    """deterministic sorted dataset number i with n entries on a small genome"""
    genomes = [[["chr1", 12]], [["chr1", 8], ["chr2", 10]], [["chr1", 6], ["chr2", 9], ["chr3", 7]], [["chr1", 5], ["chr10", 8], ["chr2", 6], ["chr3", 4]]]
    genome = genomes[i % len(genomes)]
    k = len(genome)
    ents = []
    for j in range(n):
        c = (j * k) // n if i % 3 else min(k - 1, (j * (k + 1)) // n)     # i%3==0 leaves the last chromosome empty sometimes
        if i % 5 == 4 and k > 1:
            c = min(c, k - 2)                                            # trailing empty chromosome
        size = genome[c][1]
        a = (j * 3 + i) % size
        b = min(size, a + 1 + (j + i) % 4)
        ents.append([c, a, b])
    ents.sort(key=lambda e: (e[0], e[1], e[2]))
    return genome, ents


def all_chunkings_cases(n, datasets, stride=1, offset=0):
    cnt = 0
    for i in datasets:
        genome, ents = dataset(i, n)
        for mask in range(2 ** (n - 1)):
            cuts = [p + 1 for p in range(n - 1) if mask >> p & 1]
            for comp in COMPS:
                cnt += 1
                if (cnt + offset) % stride:
                    continue
                yield make_case(genome, ents, cuts, comp, i * 31 + mask)


def make_case(genome, ents, cuts, comp, salt):
    case = {"genome": genome, "entries": ents, "cuts": cuts, "comp": comp}
    if comp in ("histogram", "pileup-histogram"):
        case["edges"] = [0, 1, 2, 3, 5, 20]
    if comp == "histogram-range":
        case["nbins"], case["range"] = 4, [0, 12]
    if comp == "count_kmers":
        case["k"] = 1 + salt % 3
    if comp == "chunk_entries":
        case["m"] = 1 + salt % 4
    if comp == "window-mean":
        case["w"] = 1 + salt % 3
        if salt % 3 == 0:
            case["ragged_windows"] = True
        if salt % 5 in (1, 2, 3):
            case["unsorted_windows"] = 1 + salt % 7
        if salt % 2:
            case["wstrands"] = ["+-", "+-.", ".", "-.", "+", ".+"][(salt // 2) % 6]
    if comp == "streamable-map":
        case["strand_salt"] = salt
    if comp == "joint":
        case["w"] = 1 + salt % 3
        case["edges"] = [0, 1, 2, 3, 5, 20]
        case["parts"] = [["mean", "sum", "hist"], ["mean", "sum"], ["mean", "hist"], ["sum", "hist"], ["mean"], ["merged", "sum"], ["merged", "mean", "hist"]][salt % 7]
        case["as_dict"] = bool((salt // 7) % 2)
        case["d"] = [0, 1, 2, 3][(salt // 14) % 4]
    return case


def task_all_chunkings(stats, known_open, n, datasets, stride=1, offset=0):
    import sys
    core.run_enumeration(sys.modules[__name__], all_chunkings_cases(n, datasets, stride, offset), stats, known_open,
                         name=f"all-chunkings:n={n}:datasets={datasets}")


@st.composite
def sampled_case(draw, nmax):
    k = draw(st.integers(1, 4))
    names = ["chr1", "chr10", "chr2", "chrX"][:k]
    genome = [[nm, draw(st.integers(2, 30))] for nm in names]
    ents = []
    for c, (nm, size) in enumerate(genome):
        cnt = draw(st.one_of(st.just(0), st.integers(0, max(1, nmax // k))))
        for _ in range(cnt):
            a = draw(st.integers(0, size - 1))
            ents.append([c, a, draw(st.integers(a + 1, size))])
    if not ents:
        ents.append([0, 0, 1])
    ents.sort(key=lambda e: (e[0], e[1], e[2]))
    n = len(ents)
    cuts = draw(st.one_of(st.just([]), st.lists(st.integers(1, max(1, n - 1)), max_size=min(n, 12)), st.just(list(range(1, n)))))
    comp = draw(st.sampled_from(COMPS))
    case = make_case(genome, ents, cuts, comp, draw(st.integers(0, 55)))
    if comp == "chunk_entries":
        case["m"] = draw(st.integers(1, max(1, n)))
    return case


def task_sampled(stats, known_open, n, seed, nmax):
    import sys
    core.run_hypothesis(sys.modules[__name__], sampled_case(nmax), stats, known_open, max_examples=n, seed=seed)


def task_big_count(stats, known_open):
    """k-mer counts of more than a million k-mers (count_encoded counts in blocks of 1,000,000 values), whole and in three chunkings."""
    import sys
    for cuts in ([], [3], [1, 4], [1, 2, 3, 4, 5]):
        core.run_case(sys.modules[__name__], {"comp": "big-count", "genome": [["chr1", 1]], "entries": [[0, 0, 1]], "cuts": cuts,
                                              "lengths": [300_000, 1, 0, 450_000, 5, 400_000], "k": 3}, stats, known_open)


def tasks(tier, seed):
    out = [("task_big_count", {})]
    if tier == "quick":
        for o in range(12):
            out.append(("task_all_chunkings", dict(n=8, datasets=[0, 1, 2, 3, 4, 5, 6, 7, 8, 9], stride=12, offset=o)))
        for j in range(4):
            out.append(("task_sampled", dict(n=250, seed=seed * 100 + j, nmax=40)))
    else:
        for o in range(16):
            out.append(("task_all_chunkings", dict(n=10, datasets=list(range(12)), stride=16, offset=o)))
        for o in range(16):
            out.append(("task_all_chunkings", dict(n=12, datasets=[1, 2, 3, 7], stride=16, offset=o)))
        for j in range(32):
            out.append(("task_sampled", dict(n=600, seed=seed * 100 + j, nmax=300)))
    return out
