"""Independent per-format grammars.

A *file case* is a JSON-able dict

    {"fmt": name, "records": [[field text, ...], ...], "crlf": bool, "final_nl": bool,
     "header": [line, ...], "wrap": int (wrapped FASTA only), "comments": {index: [line, ...]}}

Records are kept at text level so that valid non-canonical spellings ('+5', '007', '1e3') are
representable.  `serialize` turns a case into bytes; `expected_rows` gives the values the format
assigns to that text, computed with plain Python (int(), float(), str.split) and sharing no code
with bionumpy.  `table_rows` converts a bionumpy table into the same shape.
"""
import math

# column type tags
S = "s"        # text kept verbatim
I = "i"        # integer
F = "f"        # float
OI = "oi"      # integer or '.'
C = "c"        # single symbol (strand)
IL = "il"      # comma separated integers, optional trailing comma
Q = "q"        # FASTQ qualities: list of (code - 33)
POS1 = "pos1"  # 1-based in text, 0-based in memory


class Fmt:
    def __init__(self, name, suffix, buffer, kind, columns, comment=None, lazy=True):
        self.name = name
        self.suffix = suffix
        self._buffer = buffer
        self.kind = kind            # 'tsv', 'fasta2', 'fastaml', 'fastq'
        self.columns = columns      # list of (field name, tag)
        self.comment = comment
        self.lazy = lazy            # reads lazily by default

    @property
    def buffer(self):
        import importlib
        modname, cls = self._buffer.rsplit(".", 1)
        return getattr(importlib.import_module(modname), cls)


_BED3 = [("chromosome", S), ("start", I), ("stop", I)]
_BED6 = _BED3 + [("name", S), ("score", OI), ("strand", C)]
_VCF8 = [("chromosome", S), ("position", POS1), ("id", S), ("ref_seq", S), ("alt_seq", S),
         ("quality", S), ("filter", S), ("info", S)]

FORMATS = {f.name: f for f in [
    Fmt("fasta2", ".fa", "bionumpy.io.one_line_buffer.TwoLineFastaBuffer", "fasta2",
        [("name", S), ("sequence", S)]),
    Fmt("fastaml", ".fa", "bionumpy.io.multiline_buffer.MultiLineFastaBuffer", "fastaml",
        [("name", S), ("sequence", S)], lazy=False),
    Fmt("fastq", ".fq", "bionumpy.io.fastq_buffer.FastQBuffer", "fastq",
        [("name", S), ("sequence", S), ("quality", Q)]),
    Fmt("bed3", ".bed", "bionumpy.io.delimited_buffers.BedBuffer", "tsv", _BED3, comment="#"),
    Fmt("bed6", ".bed", "bionumpy.io.delimited_buffers.Bed6Buffer", "tsv", _BED6, comment="#"),
    Fmt("bed12", ".bed", "bionumpy.io.delimited_buffers.Bed12Buffer", "tsv",
        _BED6 + [("thick_start", I), ("thick_end", I), ("item_rgb", S), ("block_count", I),
                 ("block_sizes", IL), ("block_starts", IL)], comment="#"),
    Fmt("bdg", ".bdg", "bionumpy.io.delimited_buffers.BdgBuffer", "tsv", _BED3 + [("value", F)], comment="#"),
    Fmt("wig", ".wig", "bionumpy.io.wig.WigBuffer", "tsv", _BED3 + [("value", F)], comment="#", lazy=False),
    Fmt("narrowpeak", ".narrowPeak", "bionumpy.io.delimited_buffers.NarrowPeakBuffer", "tsv",
        _BED6 + [("signal_value", F), ("p_value", F), ("q_value", F), ("summit", I)], comment="#"),
    Fmt("chromsizes", ".sizes", "bionumpy.io.delimited_buffers.ChromosomeSizeBuffer", "tsv",
        [("name", S), ("size", I)], comment="#"),
    Fmt("vcf", ".vcf", "bionumpy.io.vcf_buffers.VCFBuffer", "tsv", _VCF8, comment="#"),
    Fmt("vcfs", ".vcf", "bionumpy.io.vcf_buffers.VCFWithInfoAsStringBuffer", "tsv", _VCF8, comment="#"),
    Fmt("vcf2", ".vcf", "bionumpy.io.vcf_buffers.VCFBuffer2", "tsv", _VCF8 + [("genotype", "gt_text")], comment="#"),
    Fmt("vcfm", ".vcf", "bionumpy.io.vcf_buffers.VCFMatrixBuffer", "tsv", _VCF8 + [("genotypes", "gt3")], comment="#"),
    Fmt("vcfpm", ".vcf", "bionumpy.io.vcf_buffers.PhasedVCFMatrixBuffer", "tsv", _VCF8 + [("genotypes", "gt3")], comment="#"),
    Fmt("vcfph", ".vcf", "bionumpy.io.vcf_buffers.PhasedHaplotypeVCFMatrixBuffer", "tsv", _VCF8 + [("genotypes", "hap")], comment="#"),
    Fmt("sam", ".sam", "bionumpy.io.buffers.sam.SAMBuffer", "tsv",
        [("name", S), ("flag", I), ("chromosome", S), ("position", I), ("mapq", I), ("cigar", S),
         ("next_chromosome", S), ("next_position", I), ("length", I), ("sequence", S), ("quality", S),
         ("extra", S)], comment="@"),
    Fmt("gtf", ".gtf", "bionumpy.io.delimited_buffers.GTFBuffer", "tsv",
        [("chromosome", S), ("source", S), ("feature_type", S), ("start", I), ("stop", I), ("score", S),
         ("strand", C), ("phase", S), ("atributes", S)], comment="#", lazy=False),
    Fmt("gff", ".gff3", "bionumpy.io.delimited_buffers.GFFBuffer", "tsv",
        [("chromosome", S), ("source", S), ("feature_type", S), ("start", I), ("stop", I), ("score", S),
         ("strand", C), ("phase", S), ("atributes", S)], comment="#", lazy=False),
    Fmt("gfa", ".gfa", "bionumpy.io.delimited_buffers.GfaSequenceBuffer", "tsv",
        [("name", S), ("sequence", S)], comment="#"),
    Fmt("pairs", ".pairs", "bionumpy.io.pairs.PairsBuffer", "tsv",
        [("read_id", S), ("chrom1", S), ("pos1", I), ("chrom2", S), ("pos2", I), ("strand1", C), ("strand2", C)],
        comment="#"),
]}


def eol(case):
    return "\r\n" if case.get("crlf") else "\n"


def record_lines(case, rec):
    """The text lines (without line ends) of one record."""
    fmt = FORMATS[case["fmt"]]
    if fmt.kind == "tsv":
        if fmt.name == "sam":
            fields = list(rec[:11]) + ([rec[11]] if len(rec) > 11 and rec[11] != "" else [])
            return ["\t".join(fields)]
        if fmt.name == "gfa":
            return ["\t".join(["S"] + list(rec))]
        return ["\t".join(rec)]
    if fmt.kind == "fasta2":
        return [">" + rec[0], rec[1]]
    if fmt.kind == "fastq":
        # record: [name, sequence, quality text, text after '+']
        return ["@" + rec[0], rec[1], "+" + (rec[3] if len(rec) > 3 else ""), rec[2]]
    if fmt.kind == "fastaml":
        w = case.get("wrap", 80)
        seq = rec[1]
        return [">" + rec[0]] + [seq[i:i + w] for i in range(0, len(seq), w)]
    raise ValueError(fmt.kind)


def record_bytes(case, rec):
    e = eol(case)
    return "".join(l + e for l in record_lines(case, rec)).encode("latin-1")


def header_bytes(case):
    e = eol(case)
    return "".join(l + e for l in case.get("header", [])).encode("latin-1")


def serialize(case):
    """File content for a case."""
    out = [header_bytes(case)]
    comments = case.get("comments") or {}
    e = eol(case)
    for i, rec in enumerate(case["records"]):
        for l in comments.get(str(i), []):
            out.append((l + e).encode("latin-1"))
        out.append(record_bytes(case, rec))
    data = b"".join(out)
    eb = e.encode()
    if not case.get("final_nl", True) and data.endswith(eb) and not data.endswith(eb + eb) and data != eb:
        # "no final newline" means the last line is not terminated; an empty last line has nothing to leave unterminated
        data = data[:-len(eb)]
    return data


def parse_value(tag, text):
    if tag == S:
        return text
    if tag == I:
        return int(text)
    if tag == POS1:
        return int(text) - 1
    if tag == F:
        return float(text)
    if tag == OI:
        return 0 if text == "." else int(text)
    if tag == C:
        return text
    if tag == IL:
        return [int(x) for x in text.split(",") if x != ""]
    if tag == Q:
        return [ord(ch) - 33 for ch in text]
    raise ValueError(tag)


VCF_FAMILY = ("vcf", "vcfs", "vcf2", "vcfm", "vcfpm", "vcfph")
_HAP_CODE = {"0": 0, "1": 1, "2": 2, "3": 3, "4": 4, ".": 5}


def parse_info(text, decl):
    """Typed INFO according to the header declaration [[ID, Number, Type], ...]."""
    items = {} if text == "." else dict((kv.split("=", 1) + [None])[:2] for kv in text.split(";"))
    out = []
    for key, number, typ in decl:
        is_list = not (number.isdigit() and int(number) <= 1)
        val = items.get(key)
        present = key in items
        if typ == "Flag":
            out.append(present)
        elif typ == "Integer":
            if is_list:
                out.append([int(x) for x in val.split(",")] if present else [])
            else:
                out.append(int(val) if present else 0)
        elif typ == "Float":
            if is_list:
                out.append([float(x) for x in val.split(",")] if present else [])
            else:
                out.append(float(val) if present else float("nan"))
        else:
            out.append(val if present else "")
    return tuple(out)


def vcf_expected_rows(case):
    name = case["fmt"]
    decl = case.get("info_decl")
    rows = []
    for rec in case["records"]:
        base = [parse_value(tag, txt) for (n, tag), txt in zip(_VCF8, rec[:8])]
        if decl and name != "vcfs":
            base[7] = parse_info(rec[7], decl)
        samples = rec[9:]
        if name == "vcf2":
            base.append([s.split(":")[0] for s in samples])
        elif name in ("vcfm", "vcfpm"):
            base.append([s[:3] for s in samples])
        elif name == "vcfph":
            base.append([_HAP_CODE[ch] for s in samples for ch in (s[0], s[2])])
        rows.append(tuple(base))
    return rows


def expected_rows(case):
    fmt = FORMATS[case["fmt"]]
    if fmt.name in VCF_FAMILY:
        return vcf_expected_rows(case)
    rows = []
    for rec in case["records"]:
        if fmt.name == "sam":
            rec = list(rec[:11]) + [rec[11] if len(rec) > 11 else ""]
        if fmt.kind == "fastq":
            rec = rec[:3]
        rows.append(tuple(parse_value(tag, txt) for (name, tag), txt in zip(fmt.columns, rec)))
    return rows


# ---------------------------------------------------------------------------------------
# bionumpy table -> python rows
# ---------------------------------------------------------------------------------------

def column_to_list(col):
    import numpy as np
    from bionumpy.encoded_array import EncodedArray, EncodedRaggedArray
    from bionumpy.bnpdataclass import BNPDataClass
    if hasattr(col, "get_data_object"):
        col = col.get_data_object()
    if isinstance(col, BNPDataClass):
        return table_rows(col)
    if isinstance(col, EncodedRaggedArray):
        return col.tolist()
    if type(col).__name__ == "StringArray":
        def dec(x):
            return [dec(y) for y in x] if isinstance(x, list) else x.decode("latin-1")
        return dec(col.raw().tolist())
    if isinstance(col, EncodedArray) and type(col.encoding).__name__ in ("_GenotypeRowEncoding", "_PhasedGenotypeRowEncoding"):
        raw = np.asarray(col.raw())
        if raw.ndim == 2 and raw.shape[1] == 0:
            return [[] for _ in range(raw.shape[0])]
        return [bytes(np.asarray(col.encoding.decode(row), dtype=np.uint8)).decode("latin-1").split("\t") for row in raw]
    if isinstance(col, EncodedArray) and type(col.encoding).__name__ == "_PhasedHaplotypeRowEncoding":
        return np.asarray(col.raw()).tolist()
    if isinstance(col, EncodedArray) and type(col.encoding).__name__ == "StringEncoding":
        labels = col.encoding.get_labels()
        return [labels[int(i)] for i in np.atleast_1d(col.raw()).tolist()]
    if isinstance(col, EncodedArray):
        if col.ndim == 1:
            return list(col.to_string())
        return [r.to_string() for r in col]
    if isinstance(col, np.ndarray):
        return col.tolist()
    return col.tolist()


def table_rows(table, names=None):
    import dataclasses
    if hasattr(table, "get_data_object"):
        fields = [f.name for f in dataclasses.fields(table)]
    else:
        fields = [f.name for f in dataclasses.fields(table)]
    if names is not None:
        fields = names
    cols = [column_to_list(getattr(table, n)) for n in fields]
    n = len(table)
    for c in cols:
        if len(c) != n:
            raise AssertionError(f"column length {len(c)} != table length {n}")
    return [tuple(c[i] for c in cols) for i in range(n)]


def ulp_diff(a, b):
    if a == b:
        return 0
    if a != a and b != b:
        return 0
    if a != a or b != b or math.isinf(a) or math.isinf(b):
        return float("inf")
    return abs(a - b) / math.ulp(max(abs(a), abs(b)))


def value_equal(exp, act, ulps=8):
    if isinstance(exp, float) or isinstance(act, float):
        try:
            return ulp_diff(float(exp), float(act)) <= ulps
        except (TypeError, ValueError):
            return False
    if isinstance(exp, (list, tuple)) and isinstance(act, (list, tuple)):
        return len(exp) == len(act) and all(value_equal(e, a, ulps) for e, a in zip(exp, act))
    if isinstance(exp, bool) or isinstance(act, bool):
        return bool(exp) == bool(act) and not isinstance(exp, str) and not isinstance(act, str)
    return exp == act


def rows_equal(exp, act, ulps=8):
    return value_equal(list(exp), list(act), ulps)


def first_row_diff(exp, act, ulps=8):
    if len(exp) != len(act):
        return {"n_expected": len(exp), "n_actual": len(act)}
    for i, (e, a) in enumerate(zip(exp, act)):
        if not value_equal(e, a, ulps):
            return {"row": i, "expected": e, "actual": a}
    return None
