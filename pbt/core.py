"""Shared machinery for the property checks.

Every property module exposes

    ID, RULE, ASSUMPTIONS, REQUIRED_CLASSES, BOUNDS
    tasks(tier, seed) -> list of (function_name, kwargs)      work units for the pool
    check(case) -> list[Failure]                              the oracle, on one JSON-able case
    classify(case) -> (nontrivial: bool, classes: list[str])  the non-trivial rule

Work units run in a process pool; each fills a Stats object that the parent merges.
A case is always a JSON-able dict, so a replay file is simply a case plus what was observed.
"""
import hashlib
import importlib
import json
import os
import signal
import sys
import time
import traceback
from collections import Counter

VERIF_DIR = os.path.dirname(os.path.dirname(os.path.abspath(__file__)))
CASE_TIMEOUT_S = 30


class Failure:
    def __init__(self, bucket, detail=None):
        self.bucket = bucket
        self.detail = detail if detail is not None else {}

    def __repr__(self):
        return f"Failure({self.bucket!r}, {self.detail!r})"


class CaseTimeout(BaseException):
    """Raised by the per-case alarm. Not an Exception: the oracles catch Exception around library calls, and a slow case must
    end up counted as a timeout (inconclusive), never as 'the library raised'."""
    pass


def _alarm_handler(signum, frame):
    raise CaseTimeout()


def jsonable(x):
    """Best-effort conversion of observed values to something json can hold."""
    import numpy as np
    if isinstance(x, dict):
        return {str(k): jsonable(v) for k, v in x.items()}
    if isinstance(x, (list, tuple)):
        return [jsonable(v) for v in x]
    if isinstance(x, (bytes, bytearray)):
        try:
            return x.decode("ascii")
        except UnicodeDecodeError:
            return "hex:" + bytes(x).hex()
    if isinstance(x, (np.integer,)):
        return int(x)
    if isinstance(x, (np.floating,)):
        return repr(float(x))
    if isinstance(x, float):
        if x != x or x in (float("inf"), float("-inf")):
            return repr(x)
        return x
    if isinstance(x, (np.bool_,)):
        return bool(x)
    if isinstance(x, np.ndarray):
        return jsonable(x.tolist())
    if isinstance(x, (str, int, bool)) or x is None:
        return x
    return repr(x)[:500]


def case_key(case):
    s = json.dumps(case, sort_keys=True, default=str)
    return int.from_bytes(hashlib.blake2b(s.encode(), digest_size=8).digest(), "big")


def _size(case):
    return len(json.dumps(case, sort_keys=True, default=str))


ALT_FIRST, ALT_LARGEST = 10, 14


def _keep_alt(alts, rec):
    """Keep the first ALT_FIRST failing cases seen and the ALT_LARGEST largest ones (distinct)."""
    if any(a["size"] == rec["size"] and a["case"] == rec["case"] for a in alts):
        return
    if len(alts) < ALT_FIRST + ALT_LARGEST:
        alts.append(rec)
        return
    tail = alts[ALT_FIRST:]
    smallest = min(range(len(tail)), key=lambda i: tail[i]["size"])
    if rec["size"] > tail[smallest]["size"]:
        alts[ALT_FIRST + smallest] = rec


class Stats:
    """What one work unit (or the merged run) covered."""

    def __init__(self):
        self.evaluations = 0
        self.nontrivial = set()
        self.classes = Counter()
        self.first_nontrivial = []
        self.stride_samples = []
        self.failures = {}       # bucket -> dict(count, case, detail)
        self.known = {}          # bucket -> dict(count, case, detail)
        self.raised_allowed = Counter()
        self.tolerant = Counter()
        self.timeouts = []
        self.exhaustive = {}
        self.budget_exhausted = False
        self.harness_errors = []
        self.extra = {}
        self.deadline = None
        self._next_sample_at = 1

    # -- recording -------------------------------------------------------------------
    def out_of_time(self):
        if self.deadline is not None and time.time() > self.deadline:
            self.budget_exhausted = True
            return True
        return False

    def record(self, case, nontrivial, classes=()):
        self.evaluations += 1
        for c in classes:
            self.classes[c] += 1
        if nontrivial:
            self.nontrivial.add(case_key(case))
            if len(self.first_nontrivial) < 3:
                self.first_nontrivial.append(case)
        if self.evaluations == self._next_sample_at:
            self.stride_samples.append(case)
            self.stride_samples = self.stride_samples[-5:]
            self._next_sample_at *= 3

    def add_failure(self, failure, case, known_open):
        target = self.known if failure.bucket in known_open else self.failures
        cur = target.get(failure.bucket)
        s = _size(case)
        if cur is None:
            cur = target[failure.bucket] = {"count": 1, "case": case, "detail": jsonable(failure.detail), "size": s, "alts": []}
        else:
            cur["count"] += 1
            if s < cur["size"]:
                cur.update(case=case, detail=jsonable(failure.detail), size=s)
        # other failing cases of the bucket (the first ones seen and the largest ones): if the smallest case only fails because of
        # state left behind by earlier cases in the same process, one of these may carry its own history and reproduce alone
        _keep_alt(cur.setdefault("alts", []), {"case": case, "detail": jsonable(failure.detail), "size": s})

    # -- merging ---------------------------------------------------------------------
    def merge(self, other):
        self.evaluations += other.evaluations
        self.nontrivial |= other.nontrivial
        self.classes.update(other.classes)
        for c in other.first_nontrivial:
            if len(self.first_nontrivial) < 3:
                self.first_nontrivial.append(c)
        self.stride_samples = (self.stride_samples + other.stride_samples)[-5:]
        for mine, theirs in ((self.failures, other.failures), (self.known, other.known)):
            for b, rec in theirs.items():
                cur = mine.get(b)
                if cur is None:
                    mine[b] = dict(rec, alts=list(rec.get("alts", [])))
                else:
                    cur["count"] += rec["count"]
                    if rec["size"] < cur["size"]:
                        cur.update(case=rec["case"], detail=rec["detail"], size=rec["size"])
                    for a in rec.get("alts", []):
                        _keep_alt(cur.setdefault("alts", []), a)
        self.raised_allowed.update(other.raised_allowed)
        self.tolerant.update(other.tolerant)
        self.timeouts.extend(other.timeouts)
        for k, v in other.exhaustive.items():
            self.exhaustive[k] = self.exhaustive.get(k, True) and v
        self.budget_exhausted = self.budget_exhausted or other.budget_exhausted
        self.harness_errors.extend(other.harness_errors)
        for k, v in other.extra.items():
            if isinstance(v, (int, float)) and isinstance(self.extra.get(k, 0), (int, float)):
                self.extra[k] = self.extra.get(k, 0) + v
            elif isinstance(v, dict):
                d = self.extra.setdefault(k, {})
                for kk, vv in v.items():
                    d[kk] = d.get(kk, 0) + vv if isinstance(vv, (int, float)) else vv
            else:
                self.extra[k] = v


# ---------------------------------------------------------------------------------------
# known findings
# ---------------------------------------------------------------------------------------

def load_known_findings():
    path = os.path.join(VERIF_DIR, "known_findings.json")
    if not os.path.exists(path):
        return []
    with open(path) as f:
        return json.load(f)["findings"]


def open_buckets(prop_id):
    return {e["bucket"]: e for e in load_known_findings()
            if e["status"] == "open" and prop_id in e.get("properties", [e.get("property")])}


# ---------------------------------------------------------------------------------------
# running one case
# ---------------------------------------------------------------------------------------

def run_case(mod, case, stats, known_open, classify=True):
    """Run the oracle on one case. Returns the list of failures (known ones included)."""
    if classify:
        nontrivial, classes = mod.classify(case)
        stats.record(case, nontrivial, classes)
    old = signal.signal(signal.SIGALRM, _alarm_handler)
    signal.alarm(CASE_TIMEOUT_S)
    try:
        failures = mod.check(case, stats) or []
    except CaseTimeout:
        stats.timeouts.append(case)
        failures = []
    finally:
        signal.alarm(0)
        signal.signal(signal.SIGALRM, old)
    for f in failures:
        stats.add_failure(f, case, known_open)
    return failures


def run_enumeration(mod, cases, stats, known_open, name=None):
    """Run every case of an iterable; never stops at a failure."""
    completed = True
    for i, case in enumerate(cases):
        if (i & 63) == 0 and stats.out_of_time():
            completed = False
            break
        run_case(mod, case, stats, known_open)
    if name is not None:
        stats.exhaustive[name] = stats.exhaustive.get(name, True) and completed
    return completed


class _NewBucket(Exception):
    pass


def run_hypothesis(mod, strategy, stats, known_open, max_examples, seed, shrink=True,
                   shrink_budget_s=60, max_rounds=6):
    """Collect-then-shrink driver.

    The test body records every failure; it raises only for a bucket that has not been reported yet
    (and is not a listed open finding), so Hypothesis shrinks that one.  After that the bucket is
    excluded and generation starts again, so a shallow defect does not hide what lies behind it.
    """
    import hypothesis
    from hypothesis import given, settings, HealthCheck, Phase

    reported = set()
    phases = [Phase.explicit, Phase.generate] + ([Phase.shrink] if shrink else [])
    for round_no in range(max_rounds):
        state = {"target": None, "first_fail_time": None, "n": 0}

        @hypothesis.seed(seed * 7919 + round_no)
        @settings(max_examples=max_examples, database=None, deadline=None, derandomize=False,
                  report_multiple_bugs=False, phases=phases,
                  suppress_health_check=list(HealthCheck))
        @given(strategy)
        def body(case):
            if state["target"] is None and stats.out_of_time():
                return
            shrinking = state["target"] is not None
            if shrinking and time.time() - state["first_fail_time"] > shrink_budget_s:
                return
            failures = run_case(mod, case, stats, known_open, classify=not shrinking)
            fresh = [f for f in failures if f.bucket not in known_open and f.bucket not in reported]
            if state["target"] is None:
                if fresh:
                    state["target"] = fresh[0].bucket
                    state["first_fail_time"] = time.time()
                    raise _NewBucket(fresh[0].bucket)
            else:
                if any(f.bucket == state["target"] for f in fresh):
                    raise _NewBucket(state["target"])

        try:
            body()
        except _NewBucket:
            pass
        except BaseException as e:  # noqa
            if isinstance(e, KeyboardInterrupt):
                raise
            if state["target"] is None:
                # not one of ours: generator bug, health check, flaky
                stats.harness_errors.append("".join(traceback.format_exception(type(e), e, e.__traceback__))[-4000:])
                return
        if state["target"] is None:
            return
        reported.add(state["target"])
        if stats.out_of_time():
            return


# ---------------------------------------------------------------------------------------
# pool
# ---------------------------------------------------------------------------------------

def _worker(arg):
    mod_name, func_name, kwargs, deadline = arg
    stats = Stats()
    stats.deadline = deadline
    try:
        mod = importlib.import_module(mod_name)
        known_open = set(open_buckets(mod.ID))
        getattr(mod, func_name)(stats=stats, known_open=known_open, **kwargs)
    except BaseException as e:  # noqa
        if isinstance(e, KeyboardInterrupt):
            raise
        stats.harness_errors.append(f"task {func_name} {kwargs}: " +
                                    "".join(traceback.format_exception(type(e), e, e.__traceback__))[-4000:])
    stats.deadline = None
    return stats


def run_tasks(mod_name, tasks, budget_s, processes=None):
    import multiprocessing as mp
    deadline = time.time() + budget_s
    args = [(mod_name, fn, kw, deadline) for fn, kw in tasks]
    total = Stats()
    processes = processes or min(16, max(1, len(args)))
    if processes == 1 or os.environ.get("VERIF_SERIAL"):
        for a in args:
            total.merge(_worker(a))
        return total
    ctx = mp.get_context("fork")
    with ctx.Pool(processes, maxtasksperchild=None) as pool:
        for st in pool.imap(_worker, args, chunksize=1):
            total.merge(st)
    return total


# ---------------------------------------------------------------------------------------
# evidence and replay files
# ---------------------------------------------------------------------------------------

def _safe(name):
    return "".join(ch if ch.isalnum() or ch in "-_." else "_" for ch in name)


def write_replay(prop_id, bucket, rec, seed):
    d = os.path.join(VERIF_DIR, "replays", prop_id)
    os.makedirs(d, exist_ok=True)
    path = os.path.join(d, _safe(bucket) + ".json")
    with open(path, "w") as f:
        json.dump({"property": prop_id, "bucket": bucket, "seed": seed, "case": rec["case"],
                   "detail": rec["detail"], "count_in_run": rec["count"]}, f, indent=1, default=str)
    return os.path.relpath(path, VERIF_DIR)


def evidence_dir():
    """evidence/ under /verif; the sensitivity tools set VERIF_EVIDENCE_DIR so that a run against a scratch copy
    of the library never overwrites the evidence of the real tree."""
    return os.environ.get("VERIF_EVIDENCE_DIR") or os.path.join(VERIF_DIR, "evidence")


def _abbreviate(x, max_str=400, max_list=60):
    """Samples are for reading: long strings and long lists are cut (with their full length noted) so that one large
    generated case (a 16 MB FASTA, say) cannot make the evidence file unwieldy. Replay files keep the full case."""
    if isinstance(x, str):
        return x if len(x) <= max_str else x[:max_str // 2] + f"...<{len(x)} characters in all>..." + x[-40:]
    if isinstance(x, dict):
        return {k: _abbreviate(v, max_str, max_list) for k, v in x.items()}
    if isinstance(x, (list, tuple)):
        y = [_abbreviate(v, max_str, max_list) for v in x[:max_list]]
        if len(x) > max_list:
            y.append(f"...<{len(x)} items in all>")
        return y
    return x


def write_evidence(mod, stats, tier, seed, wall_s, bionumpy_file, n_violations):
    samples = list(stats.first_nontrivial)
    for s in stats.stride_samples:
        if s not in samples:
            samples.append(s)
    cov = {
        "evaluations": int(stats.evaluations),
        "distinct_nontrivial": len(stats.nontrivial),
        "rule": mod.RULE,
        "samples": _abbreviate(jsonable(samples[:8])),
        "class_histogram": dict(sorted(stats.classes.items())),
        "exhaustive_subdomains": stats.exhaustive,
        "exhaustive": bool(stats.exhaustive) and all(stats.exhaustive.values()) and not stats.budget_exhausted
                      and getattr(mod, "ALL_EXHAUSTIVE", False),
        "raised_allowed": dict(stats.raised_allowed),
        "tolerant_classes": dict(stats.tolerant),
        "excluded_by_known_finding": {b: r["count"] for b, r in stats.known.items()},
        "failure_buckets": {b: r["count"] for b, r in stats.failures.items()},
        "case_timeouts": len(stats.timeouts),
        "budget_exhausted": stats.budget_exhausted,
        "bounds": getattr(mod, "BOUNDS", {}).get(tier, ""),
        "bionumpy_file": bionumpy_file,
    }
    cov.update(jsonable(stats.extra))
    ev = {
        "property_id": mod.ID,
        "tier": tier,
        "seed": int(seed),
        "level": "exploration",
        "coverage": cov,
        "assumptions": list(mod.ASSUMPTIONS),
        "wall_s": round(wall_s, 2),
        "violations": int(n_violations),
    }
    d = evidence_dir()
    os.makedirs(d, exist_ok=True)
    with open(os.path.join(d, mod.ID + ".json"), "w") as f:
        json.dump(ev, f, indent=1, default=str)
        f.write("\n")
